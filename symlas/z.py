"""Smart constructors over z3 with partial evaluation.

Booleans are Python ``bool`` when concrete and ``z3.BoolRef`` otherwise; integers are
Python ``int`` or signed bit-vectors of width IW; characters are Python ``int`` (code
point 0..255, Latin-1) or bit-vectors of width CW.  Every constructor folds constants,
so that the concrete parts of a harness (fixed skeleton lines, lasio's default header
items, ...) cost nothing in the solver.
"""
import z3

CW = 8
import os
IW = int(os.environ.get('SYMLAS_IW', '9'))  # signed ints: -256 .. 255 (lengths, offsets, widths)


def is_sym(x):
    return isinstance(x, z3.ExprRef)


def bv_i(x):
    return x if isinstance(x, z3.ExprRef) else z3.BitVecVal(int(x), IW)


def bv_c(x):
    return x if isinstance(x, z3.ExprRef) else z3.BitVecVal(int(x), CW)


def b_z(x):
    return x if isinstance(x, z3.ExprRef) else z3.BoolVal(bool(x))


def _cb(x):
    """concrete view of a boolean-ish: True/False/None(symbolic)"""
    if x is True or x is False:
        return x
    if isinstance(x, z3.ExprRef):
        if z3.is_true(x):
            return True
        if z3.is_false(x):
            return False
        return None
    return bool(x)


def Not(a):
    c = _cb(a)
    if c is not None:
        return not c
    if z3.is_not(a):
        return a.arg(0)
    return z3.Not(a)


def And(*xs):
    if len(xs) == 1 and isinstance(xs[0], (list, tuple)):
        xs = xs[0]
    out = []
    for x in xs:
        c = _cb(x)
        if c is False:
            return False
        if c is None:
            out.append(x)
    if not out:
        return True
    if len(out) == 1:
        return out[0]
    return z3.And(out)


def Or(*xs):
    if len(xs) == 1 and isinstance(xs[0], (list, tuple)):
        xs = xs[0]
    out = []
    for x in xs:
        c = _cb(x)
        if c is True:
            return True
        if c is None:
            out.append(x)
    if not out:
        return False
    if len(out) == 1:
        return out[0]
    return z3.Or(out)


def Implies(a, b):
    return Or(Not(a), b)


def Iff(a, b):
    ca, cb = _cb(a), _cb(b)
    if ca is not None:
        return b if ca else Not(b)
    if cb is not None:
        return a if cb else Not(a)
    return a == b


def ite_b(c, a, b):
    cc = _cb(c)
    if cc is not None:
        return a if cc else b
    ca, cb = _cb(a), _cb(b)
    if ca is not None and cb is not None:
        if ca == cb:
            return ca
        return c if ca else Not(c)
    if ca is True:
        return Or(c, b)
    if ca is False:
        return And(Not(c), b)
    if cb is True:
        return Or(Not(c), a)
    if cb is False:
        return And(c, a)
    return z3.If(c, a, b)


def _same(a, b):
    if isinstance(a, z3.ExprRef) and isinstance(b, z3.ExprRef):
        return a.eq(b)
    if not isinstance(a, z3.ExprRef) and not isinstance(b, z3.ExprRef):
        return a == b
    return False


def ite_i(c, a, b):
    cc = _cb(c)
    if cc is not None:
        return a if cc else b
    if _same(a, b):
        return a
    return z3.If(c, bv_i(a), bv_i(b))


def ite_c(c, a, b):
    cc = _cb(c)
    if cc is not None:
        return a if cc else b
    if _same(a, b):
        return a
    return z3.If(c, bv_c(a), bv_c(b))


def _wrap_i(v):
    v &= (1 << IW) - 1
    return v - (1 << IW) if v >= (1 << (IW - 1)) else v


def add(a, b):
    if not is_sym(a) and not is_sym(b):
        return a + b
    if not is_sym(a) and a == 0:
        return b
    if not is_sym(b) and b == 0:
        return a
    return bv_i(a) + bv_i(b)


def sub(a, b):
    if not is_sym(a) and not is_sym(b):
        return a - b
    if not is_sym(b) and b == 0:
        return a
    return bv_i(a) - bv_i(b)


def neg(a):
    return -a


def eq_i(a, b):
    if not is_sym(a) and not is_sym(b):
        return a == b
    if _same(a, b):
        return True
    return bv_i(a) == bv_i(b)


def lt(a, b):
    if not is_sym(a) and not is_sym(b):
        return a < b
    return bv_i(a) < bv_i(b)


def le(a, b):
    if not is_sym(a) and not is_sym(b):
        return a <= b
    if _same(a, b):
        return True
    return bv_i(a) <= bv_i(b)


def gt(a, b):
    return lt(b, a)


def ge(a, b):
    return le(b, a)


def max_i(a, b):
    if not is_sym(a) and not is_sym(b):
        return max(a, b)
    return ite_i(gt(a, b), a, b)


def min_i(a, b):
    if not is_sym(a) and not is_sym(b):
        return min(a, b)
    return ite_i(lt(a, b), a, b)


def eq_c(a, b):
    if not is_sym(a) and not is_sym(b):
        return a == b
    if _same(a, b):
        return True
    return bv_c(a) == bv_c(b)


def in_range_c(c, lo, hi):
    if not is_sym(c):
        return lo <= c <= hi
    return z3.And(z3.UGE(c, lo), z3.ULE(c, hi))


def in_set_c(c, codes):
    if not is_sym(c):
        return c in codes
    return Or([c == x for x in codes])


def simp(e):
    """full simplification of a symbolic value; returns a Python value when constant"""
    if not is_sym(e):
        return e
    e = z3.simplify(e)
    if z3.is_true(e):
        return True
    if z3.is_false(e):
        return False
    if z3.is_bv_value(e):
        if e.size() == IW:
            return e.as_signed_long()
        return e.as_long()
    return e


def vars_of(e, _cache={}):
    """set of uninterpreted constant names occurring in e (memoised on the AST id)"""
    k = e.get_id()
    r = _cache.get(k)
    if r is not None:
        return r
    seen = set()
    out = set()
    st = [e]
    while st:
        x = st.pop()
        i = x.get_id()
        if i in seen:
            continue
        seen.add(i)
        if z3.is_const(x):
            if x.decl().kind() == z3.Z3_OP_UNINTERPRETED:
                out.add(x.decl().name())
        else:
            st.extend(x.children())
    r = frozenset(out)
    _cache[k] = r
    if len(_cache) > 200000:
        _cache.clear()
    return r
