"""Smart constructors over z3 with partial evaluation.

Booleans are Python ``bool`` when concrete and ``z3.BoolRef`` otherwise; integers are
Python ``int`` or signed bit-vectors of width IW; characters are Python ``int`` (code
point 0..255, Latin-1) or bit-vectors of width CW.  Every constructor folds constants,
so that the concrete parts of a harness (fixed skeleton lines, lasio's default header
items, ...) cost nothing in the solver.
"""
import z3

CW = 8
import os
IW = int(os.environ.get('SYMLAS_IW', '9'))  # signed ints: -256 .. 255 (lengths, offsets, widths)


def is_sym(x):
    return isinstance(x, z3.ExprRef)


_ci, _cc = {}, {}


def bv_i(x):
    if isinstance(x, z3.ExprRef):
        return x
    r = _ci.get(x)
    if r is None:
        r = _ci[x] = z3.BitVecVal(int(x), IW)
    return r


def bv_c(x):
    if isinstance(x, z3.ExprRef):
        return x
    r = _cc.get(x)
    if r is None:
        r = _cc[x] = z3.BitVecVal(int(x), CW)
    return r


def b_z(x):
    return x if isinstance(x, z3.ExprRef) else z3.BoolVal(bool(x))


def _cb(x):
    """concrete view of a boolean-ish: True/False/None(symbolic)"""
    if x is True or x is False:
        return x
    if isinstance(x, z3.ExprRef):
        # smart constructors never build constant BoolRefs; only foreign ones can be constant
        return None
    return bool(x)


_CTX = z3.main_ctx()
_CREF = _CTX.ref()
_Ast = z3.Ast
_mk_and, _mk_or, _mk_not, _mk_ite, _mk_eq = z3.Z3_mk_and, z3.Z3_mk_or, z3.Z3_mk_not, z3.Z3_mk_ite, z3.Z3_mk_eq
_BoolRef, _BVRef = z3.BoolRef, z3.BitVecRef


def _fast_and(out):
    n = len(out)
    arr = (_Ast * n)(*[a.ast for a in out])
    return _BoolRef(_mk_and(_CREF, n, arr), _CTX)


def _fast_or(out):
    n = len(out)
    arr = (_Ast * n)(*[a.ast for a in out])
    return _BoolRef(_mk_or(_CREF, n, arr), _CTX)


def _fast_ite_bv(c, a, b):
    return _BVRef(_mk_ite(_CREF, c.ast, a.ast, b.ast), _CTX)


def _fast_eq(a, b):
    return _BoolRef(_mk_eq(_CREF, a.ast, b.ast), _CTX)


def Not(a):
    c = _cb(a)
    if c is not None:
        return not c
    return _BoolRef(_mk_not(_CREF, a.ast), _CTX)


def And(*xs):
    if len(xs) == 1 and isinstance(xs[0], (list, tuple)):
        xs = xs[0]
    out = []
    for x in xs:
        c = _cb(x)
        if c is False:
            return False
        if c is None:
            out.append(x)
    if not out:
        return True
    if len(out) == 1:
        return out[0]
    return _fast_and(out)


def Or(*xs):
    if len(xs) == 1 and isinstance(xs[0], (list, tuple)):
        xs = xs[0]
    out = []
    for x in xs:
        c = _cb(x)
        if c is True:
            return True
        if c is None:
            out.append(x)
    if not out:
        return False
    if len(out) == 1:
        return out[0]
    return _fast_or(out)


def Implies(a, b):
    return Or(Not(a), b)


def Iff(a, b):
    ca, cb = _cb(a), _cb(b)
    if ca is not None:
        return b if ca else Not(b)
    if cb is not None:
        return a if cb else Not(a)
    return a == b


def ite_b(c, a, b):
    cc = _cb(c)
    if cc is not None:
        return a if cc else b
    ca, cb = _cb(a), _cb(b)
    if ca is not None and cb is not None:
        if ca == cb:
            return ca
        return c if ca else Not(c)
    if ca is True:
        return Or(c, b)
    if ca is False:
        return And(Not(c), b)
    if cb is True:
        return Or(Not(c), a)
    if cb is False:
        return And(c, a)
    return z3.If(c, a, b)


def _same(a, b):
    if isinstance(a, z3.ExprRef) and isinstance(b, z3.ExprRef):
        return a.eq(b)
    if not isinstance(a, z3.ExprRef) and not isinstance(b, z3.ExprRef):
        return a == b
    return False


def ite_i(c, a, b):
    cc = _cb(c)
    if cc is not None:
        return a if cc else b
    if _same(a, b):
        return a
    return _fast_ite_bv(c, bv_i(a), bv_i(b))


def ite_c(c, a, b):
    cc = _cb(c)
    if cc is not None:
        return a if cc else b
    if _same(a, b):
        return a
    return _fast_ite_bv(c, bv_c(a), bv_c(b))


def _wrap_i(v):
    v &= (1 << IW) - 1
    return v - (1 << IW) if v >= (1 << (IW - 1)) else v


def add(a, b):
    if not is_sym(a) and not is_sym(b):
        return a + b
    if not is_sym(a) and a == 0:
        return b
    if not is_sym(b) and b == 0:
        return a
    return bv_i(a) + bv_i(b)


def sub(a, b):
    if not is_sym(a) and not is_sym(b):
        return a - b
    if not is_sym(b) and b == 0:
        return a
    return bv_i(a) - bv_i(b)


def neg(a):
    return -a


def eq_i(a, b):
    if not is_sym(a) and not is_sym(b):
        return a == b
    if _same(a, b):
        return True
    return _fast_eq(bv_i(a), bv_i(b))


def lt(a, b):
    if not is_sym(a) and not is_sym(b):
        return a < b
    return bv_i(a) < bv_i(b)


def le(a, b):
    if not is_sym(a) and not is_sym(b):
        return a <= b
    if _same(a, b):
        return True
    return bv_i(a) <= bv_i(b)


def gt(a, b):
    return lt(b, a)


def ge(a, b):
    return le(b, a)


def max_i(a, b):
    if not is_sym(a) and not is_sym(b):
        return max(a, b)
    return ite_i(gt(a, b), a, b)


def min_i(a, b):
    if not is_sym(a) and not is_sym(b):
        return min(a, b)
    return ite_i(lt(a, b), a, b)


def eq_c(a, b):
    if not is_sym(a) and not is_sym(b):
        return a == b
    if _same(a, b):
        return True
    return _fast_eq(bv_c(a), bv_c(b))


_mk_ule, _mk_uge = z3.Z3_mk_bvule, z3.Z3_mk_bvuge


def in_range_c(c, lo, hi):
    if not is_sym(c):
        return lo <= c <= hi
    if lo == hi:
        return _fast_eq(c, bv_c(lo))
    if lo == 0:
        return _BoolRef(_mk_ule(_CREF, c.ast, bv_c(hi).ast), _CTX)
    if hi == 255:
        return _BoolRef(_mk_uge(_CREF, c.ast, bv_c(lo).ast), _CTX)
    return _fast_and([_BoolRef(_mk_uge(_CREF, c.ast, bv_c(lo).ast), _CTX), _BoolRef(_mk_ule(_CREF, c.ast, bv_c(hi).ast), _CTX)])


_set_cache = {}


def in_set_c(c, codes):
    if not is_sym(c):
        return c in codes
    k = (c.get_id(), codes if isinstance(codes, tuple) else tuple(codes))
    r = _set_cache.get(k)
    if r is not None:
        return r[1]
    cs = sorted(set(codes))
    rngs = []
    for x in cs:
        if rngs and rngs[-1][1] == x - 1:
            rngs[-1][1] = x
        else:
            rngs.append([x, x])
    e = Or([in_range_c(c, a, b) for a, b in rngs])
    if len(_set_cache) > 100000:
        _set_cache.clear()
    _set_cache[k] = (c, e)
    return e


def simp(e):
    """full simplification of a symbolic value; returns a Python value when constant"""
    if not is_sym(e):
        return e
    e = z3.simplify(e)
    if z3.is_true(e):
        return True
    if z3.is_false(e):
        return False
    if z3.is_bv_value(e):
        if e.size() == IW:
            return e.as_signed_long()
        return e.as_long()
    return e


def vars_of(e, _cache={}):
    """set of uninterpreted constant names occurring in e (memoised on the AST id)"""
    k = e.get_id()
    r = _cache.get(k)
    if r is not None:
        return r[1]
    seen = set()
    out = set()
    st = [e]
    while st:
        x = st.pop()
        i = x.get_id()
        if i in seen:
            continue
        seen.add(i)
        if z3.is_const(x):
            if x.decl().kind() == z3.Z3_OP_UNINTERPRETED:
                out.add(x.decl().name())
        else:
            st.extend(x.children())
    r = frozenset(out)
    if len(_cache) > 200000:
        _cache.clear()
    _cache[k] = (e, r)  # holding e keeps its AST id from being reused while cached
    return r
