"""Environment stubs: text files whose lines are (partly) symbolic."""
import builtins
from . import core, z
from .values import SymStr, SymInt, concat, mkstr


class SymFile(object):
    """Text-mode file stub.

    `lines` hold no terminator (str or SymStr); `terms[i]` is the terminator delivered after
    line i ('\\n', '\\r\\n' or '' for a missing final newline).  tell()/seek() cookies are
    line indexes (opaque to lasio, which only passes them back).  Every operation goes
    through `self.op(kind)` so that a fault plan can raise at the k-th operation (C20).
    """

    def __init__(self, lines, terms=None, name="<symfile>", fault=None, registry=None):
        self.lines = list(lines)
        self.terms = list(terms) if terms is not None else ["\n"] * len(self.lines)
        self.i = 0
        self.closed = False
        self.name = name
        self.fault = fault
        self.ops = []
        if registry is not None:
            registry.append(self)

    def op(self, kind):
        self.ops.append(kind)
        if self.fault is not None:
            self.fault(self, kind)
        if self.closed and kind != "close":
            raise ValueError("I/O operation on closed file.")

    def _full(self, k):
        return concat([self.lines[k], self.terms[k]]) if self.terms[k] else self.lines[k]

    def read(self, n=-1):
        self.op("read")
        if n is None or n < 0:
            parts = [self._full(k) for k in range(self.i, len(self.lines))]
            self.i = len(self.lines)
            return concat(parts) if parts else ""
        parts = []
        k = self.i
        while k < len(self.lines) and len(parts) < 4:
            parts.append(self._full(k))
            k += 1
            if all(isinstance(p, str) for p in parts) and sum(len(p) for p in parts) >= n:
                break
        # (the position after a partial read is not modelled: lasio always seeks afterwards)
        self.i = k
        t = concat(parts) if parts else ""
        return t[:n]

    def seek(self, k, whence=0):
        self.op("seek")
        self.i = builtins.int(k)
        return self.i

    def tell(self):
        self.op("tell")
        return self.i

    def readline(self):
        self.op("readline")
        if self.i >= builtins.len(self.lines):
            return ""
        l = self._full(self.i)
        self.i += 1
        return l

    def __iter__(self):
        return self

    def __next__(self):
        self.op("next")
        if self.i >= builtins.len(self.lines):
            raise StopIteration
        l = self._full(self.i)
        self.i += 1
        return l

    def close(self):
        self.op("close")
        self.closed = True

    def __enter__(self):
        return self

    def __exit__(self, *a):
        self.close()
        return False


class OutFile(object):
    """write-only text file stub collecting what lasio writes (pieces may be symbolic)"""

    def __init__(self, name="<out>", fault=None, registry=None):
        self.pieces = []
        self.closed = False
        self.name = name
        self.fault = fault
        self.ops = []
        if registry is not None:
            registry.append(self)

    def op(self, kind):
        self.ops.append(kind)
        if self.fault is not None:
            self.fault(self, kind)
        if self.closed and kind != "close":
            raise ValueError("I/O operation on closed file.")

    def write(self, s):
        self.op("write")
        self.pieces.append(s)
        if isinstance(s, SymStr):
            return s.length()
        return len(s) if isinstance(s, str) else 0

    def close(self):
        self.op("close")
        self.closed = True

    def flush(self):
        self.op("flush")

    def __enter__(self):
        return self

    def __exit__(self, *a):
        self.close()
        return False

    def lines(self):
        """the written text as a list of lines without terminators (pieces are split at the
        '\\n' of *concrete* pieces; symbolic pieces are assumed newline-free - lasio writes one
        header line or one data line per piece or joins them with concrete '\\n')"""
        out = [[]]
        for p in self.pieces:
            if isinstance(p, SymText):
                for k, ln in enumerate(p.lines):
                    if k:
                        out.append([])
                    out[-1].append(ln)
                continue
            if isinstance(p, SymStr):
                if isinstance(p.n, int) and any(c == 10 for c in p.chars[: p.n] if isinstance(c, int)):
                    # a piece with concrete newline characters (e.g. a header line + "\n")
                    cur = []
                    for c in p.chars[: p.n]:
                        if isinstance(c, int) and c == 10:
                            if cur:
                                out[-1].append(SymStr(cur, len(cur)))
                            out.append([])
                            cur = []
                        else:
                            cur.append(c)
                    if cur:
                        out[-1].append(SymStr(cur, len(cur)))
                    continue
                out[-1].append(p)
                continue
            segs = p.split("\n")
            for k, sg in enumerate(segs):
                if k:
                    out.append([])
                if sg:
                    out[-1].append(sg)
        res = [concat(parts) if parts else "" for parts in out]
        final_newline = res and res[-1] == "" and not out[-1]
        if final_newline:
            res = res[:-1]
        return res


class SymText(object):
    """a text kept as a list of lines ('\\n'.join(lines) with symbolic members)"""

    def __init__(self, lines):
        self.lines = list(lines)

    def splitlines(self):
        return list(self.lines)
