"""Check driver: tasks -> worker pool -> candidates -> replay on the real lasio -> evidence.

A check module (``checks/cNN.py``) provides

    PROPERTY            'C04'
    TITLE, FUNCTIONS    what is encoded (qualified names of lasio functions)
    BOUNDS              dict tier -> dict of stated bounds
    tasks(tier)         list of {'name':..., 'params':{...}}  (each explored in one worker)
    harness(ns, params) -> callable f() run under core.explore; it registers its symbolic
                        inputs in core.ctx().inputs, calls apply_exclusions(), states
                        obligations with core.oblige and returns {'observed': <sym struct>}
    replay(inputs)      concrete oracle on the *real* lasio:
                        {'ok': bool, 'detail': str, 'observed': <struct>}
    EXCLUSIONS          {'name': (sym_pred(inputs)->z3 Bool, conc_pred(inputs)->bool)}
    WITNESS_TARGETS     names that must be witnessed (vacuity guards)
    validate()          optional: stub / encoding validation, returns (n_cases, [failures])
"""
import hashlib
import importlib
import json
import os
import sys
import time
import traceback

VERIF = os.path.dirname(os.path.dirname(os.path.abspath(__file__)))
REPO = os.environ.get("LASIO_REPO", "/repo")
EXIT_OK, EXIT_VIOLATION, EXIT_INCONCLUSIVE = 0, 1, 2

_NS = None
_ACTIVE_EXCL = ()
_MODULE = None


def lasio_sym():
    """instrumented lasio (one load per process, from the current working tree)"""
    global _NS
    if _NS is None:
        from . import loader

        _NS = loader.load_lasio()
    return _NS


def apply_exclusions(inputs):
    """conjoin the negation of every active known-finding class to later obligation queries"""
    from . import core, z

    c = core.ctx()
    for name in _ACTIVE_EXCL:
        sym_pred = _MODULE.EXCLUSIONS[name][0]
        c.known_exclusions.append(z.Not(sym_pred(inputs)))


def exclude_late(name, expr):
    """a known-finding class stated over values the run derives from the inputs (e.g. what the real reader made
    of a line): conjoin its negation to the obligation queries from here on, if that finding is active"""
    from . import core, z

    if name in _ACTIVE_EXCL:
        core.ctx().known_exclusions.append(z.Not(expr))


def _jsonable(v):
    import numpy as np

    if isinstance(v, dict):
        return {str(k): _jsonable(x) for k, x in v.items()}
    if isinstance(v, (list, tuple)):
        return [_jsonable(x) for x in v]
    if isinstance(v, (np.integer,)):
        return int(v)
    if isinstance(v, (np.floating, float)):
        f = float(v)
        return f if f == f and abs(f) != float("inf") else repr(f)
    if isinstance(v, np.ndarray):
        return _jsonable(v.tolist())
    if isinstance(v, (str, int, bool)) or v is None:
        return v
    return repr(v)


# ------------------------------------------------------------------------------- worker side
def _quiet():
    import logging

    logging.getLogger("lasio").setLevel(logging.CRITICAL)
    logging.getLogger("lasio").addHandler(logging.NullHandler())
    logging.getLogger("lasio").propagate = False


def _worker_init(modname, active):
    global _MODULE, _ACTIVE_EXCL
    _quiet()
    sys.path.insert(0, VERIF)
    if REPO not in sys.path:
        sys.path.insert(0, REPO)
    _MODULE = importlib.import_module(modname)
    _ACTIVE_EXCL = tuple(active)


def _run_task(task, budget_s, max_paths, nsamples):
    from . import core
    from .values import concretize

    t0 = time.time()
    core.STATS = core.Stats()
    out = {"task": task["name"], "candidates": [], "samples": [], "error": None, "witnessed": [], "xcheck": 0, "xfail": []}
    try:
        ns = lasio_sym()
        fn = _MODULE.harness(ns, task["params"])
        samples = []

        def on_path(rec, c):
            res = rec["result"] if isinstance(rec["result"], dict) else {}
            for o in rec["obligations"]:
                if o["status"] == "candidate":
                    out["candidates"].append({"task": task["name"], "obligation": o["name"], "inputs": _jsonable(o["inputs"]), "info": o.get("info")})
            # cross-validation of this path against the real implementation
            if hasattr(_MODULE, "replay") and c.inputs:
                m = c.check_sat(list(c.known_exclusions)) if c.known_exclusions else c.ensure_model()
                if m is None:
                    return
                conc = _jsonable({k: concretize(v, m) for k, v in c.inputs.items()})
                obs = _jsonable(concretize(res.get("observed"), m)) if "observed" in res else None
                r = _MODULE.replay(conc)
                out["xcheck"] += 1
                all_ok = all(o["status"] == "discharged" for o in rec["obligations"])
                if obs is not None and _jsonable(r.get("observed")) != obs:
                    out["xfail"].append({"inputs": conc, "engine": obs, "real": _jsonable(r.get("observed")), "kind": "observed-differs"})
                elif all_ok and not r["ok"]:
                    out["xfail"].append({"inputs": conc, "detail": r.get("detail"), "kind": "engine-discharged-but-real-fails"})
                if len(samples) < nsamples:
                    samples.append({"inputs": conc, "observed": obs, "path_decisions": rec["prefix_len"]})

        recs, wit = core.explore(fn, max_paths=max_paths, deadline=t0 + budget_s, on_path=on_path)
        out["witnessed"] = sorted(wit)
        out["samples"] = samples
    except core.Inconclusive as e:
        out["error"] = "inconclusive: %s" % (e,)
    except BaseException as e:  # engine error: never a pass
        out["error"] = "engine error: %s\n%s" % (e, traceback.format_exc()[-1500:])
    out["stats"] = core.STATS.as_dict()
    out["wall_s"] = time.time() - t0
    return out


# ------------------------------------------------------------------------------- main side
def load_known(prop):
    p = os.path.join(VERIF, "known_findings.json")
    if not os.path.exists(p):
        return []
    return [f for f in json.load(open(p))["findings"] if f["property"] == prop]


def functions_encoded(module):
    import ast

    out = []
    digests = {}
    for q in module.FUNCTIONS:
        fn, _, name = q.partition("::")
        path = os.path.join(REPO, fn)
        src = open(path).read()
        digests[fn] = hashlib.sha1(src.encode()).hexdigest()
        tree = ast.parse(src)
        seg = None
        parts = name.split(".")
        nodes = tree.body
        node = None
        for p in parts:
            node = next((n for n in nodes if isinstance(n, (ast.FunctionDef, ast.ClassDef)) and n.name == p), None)
            if node is None:
                break
            nodes = node.body
        if node is not None:
            seg = ast.get_source_segment(src, node)
        out.append({"function": q, "sha1": hashlib.sha1(seg.encode()).hexdigest() if seg else "missing"})
    return out, digests


def main(argv=None):
    import argparse

    ap = argparse.ArgumentParser()
    ap.add_argument("property")
    ap.add_argument("--tier", default=os.environ.get("VERIF_TIER", "quick"), choices=["quick", "thorough"])
    ap.add_argument("--replay")
    ap.add_argument("--jobs", type=int, default=int(os.environ.get("VERIF_JOBS", "16")))
    ap.add_argument("--only", help="run only tasks whose name contains this (re:<regex> for a regular expression); partial runs do not write /verif/evidence")
    a = ap.parse_args(argv)
    prop = a.property.upper()
    seed = int(os.environ.get("VERIF_SEED", "0") or 0)
    sys.path.insert(0, VERIF)
    if REPO not in sys.path:
        sys.path.insert(0, REPO)
    modname = "checks.%s" % prop.lower()
    module = importlib.import_module(modname)
    t0 = time.time()
    _quiet()

    if a.replay:
        inputs = json.load(open(a.replay))
        inputs = inputs.get("inputs", inputs)
        r = module.replay(inputs)
        print(json.dumps(_jsonable(r), indent=1))
        if not r["ok"]:
            print("VIOLATION property=%s replay=%s" % (prop, a.replay))
            return EXIT_VIOLATION
        return EXIT_OK

    problems = []  # inconclusive reasons
    violations = []
    known_lines = []
    # ---- known findings: replay each witness on the real code
    active = []
    known = load_known(prop)
    for f in known:
        if f.get("status") != "open":
            continue
        r = module.replay(f["witness"])
        if not r["ok"]:
            known_lines.append("KNOWN-FINDING: property=%s %s" % (prop, f["what"]))
            if f.get("predicate"):
                active.append(f["predicate"])
        else:
            f["_no_longer_fails"] = True
    for ln in known_lines:
        print(ln)
    sys.stdout.flush()

    # ---- validation of encodings / stubs
    nvalid = 0
    if hasattr(module, "validate"):
        n, bad = module.validate()
        nvalid += n
        if bad:
            problems.append("validation failed: %r" % (bad[:3],))

    # ---- tasks
    tasks = module.tasks(a.tier)
    a.only = a.only or os.environ.get("SYMLAS_ONLY")  # (bin/seedtest: restrict a run against a scratch tree)
    if a.only:
        import re as _re

        tasks = [t for t in tasks if (_re.search(a.only[3:], t["name"]) if a.only.startswith("re:") else a.only in t["name"])]
    import random

    random.Random(seed).shuffle(tasks)
    # longest first when the module gives a weight
    tasks.sort(key=lambda t: -t.get("weight", 1))
    budget = module.BOUNDS[a.tier].get("task_budget_s", 900)
    max_paths = module.BOUNDS[a.tier].get("max_paths", 20000)
    results = []
    from concurrent.futures import ProcessPoolExecutor, as_completed
    import multiprocessing as mp

    if a.tier == "thorough" and "SYMLAS_XCHECK_EVERY" not in os.environ:
        os.environ["SYMLAS_XCHECK_EVERY"] = "25"
    if a.tier == "thorough" and "SYMLAS_QUERY_TIMEOUT_MS" not in os.environ:
        os.environ["SYMLAS_QUERY_TIMEOUT_MS"] = "400000"  # per query: 400 s in the thorough tier (120 s in the quick tier)
    jobs = max(1, min(a.jobs, len(tasks)))
    with ProcessPoolExecutor(max_workers=jobs, mp_context=mp.get_context("spawn"), initializer=_worker_init, initargs=(modname, active)) as ex:
        futs = {ex.submit(_run_task, t, budget, max_paths, 2): t for t in tasks}
        for fu in as_completed(futs):
            t = futs[fu]
            try:
                results.append(fu.result())
            except BaseException as e:
                results.append({"task": t["name"], "error": "worker died: %r" % (e,), "candidates": [], "samples": [], "witnessed": [], "stats": {}, "xcheck": 0, "xfail": [], "wall_s": 0})

    # ---- aggregate
    from .core import Stats

    agg = Stats()
    witnessed = set()
    candidates = []
    samples = []
    xcheck = 0
    for r in results:
        agg.merge(r.get("stats", {}))
        witnessed |= set(r.get("witnessed", []))
        candidates += r["candidates"]
        samples += r["samples"]
        xcheck += r.get("xcheck", 0)
        if r["error"]:
            problems.append("task %s: %s" % (r["task"], r["error"]))
        for x in r.get("xfail", []):
            problems.append("task %s: engine/real disagreement %s" % (r["task"], json.dumps(x)[:600]))
    missing = [w for w in getattr(module, "WITNESS_TARGETS", []) if w not in witnessed]
    if missing and not a.only:
        problems.append("vacuity: witness targets never reached: %s" % missing)

    # ---- replay candidates against the real lasio
    replayed = 0
    seen = set()
    rdir = os.path.join(VERIF, "replays", prop)
    for c in candidates:
        key = hashlib.sha1(json.dumps(c["inputs"], sort_keys=True).encode()).hexdigest()[:12]
        if key in seen:
            continue
        seen.add(key)
        r = module.replay(c["inputs"])
        replayed += 1
        if r["ok"]:
            problems.append("candidate for %s/%s does not reproduce on the real code (engine or stub discrepancy): %s" % (c["task"], c["obligation"], json.dumps(c["inputs"])[:400]))
            continue
        # a real violation: is it inside a listed finding's class?
        listed = False
        for f in known:
            if f.get("status") == "open" and f.get("predicate") and not f.get("_no_longer_fails"):
                if module.EXCLUSIONS[f["predicate"]][1](c["inputs"]):
                    listed = True
        if listed:
            continue
        os.makedirs(rdir, exist_ok=True)
        path = os.path.join(rdir, key + ".json")
        json.dump({"property": prop, "task": c["task"], "obligation": c["obligation"], "inputs": c["inputs"], "detail": r.get("detail")}, open(path, "w"), indent=1)
        violations.append((path, c, r))

    wall = time.time() - t0
    fenc, digests = functions_encoded(module)
    st = agg.as_dict()
    ev = {
        "property_id": prop,
        "tier": a.tier,
        "seed": seed,
        "level": "model_checking",
        "coverage": {
            "states": max(st["paths"], 0),
            "transitions": st["queries"],
            "traces_validated_against_impl": xcheck + replayed + nvalid,
            "samples": samples[:8] if samples else [{"note": "no completed path"}],
            "explanation": "bounded symbolic execution of the real lasio functions (AST-instrumented from the working tree); states = feasible paths explored, transitions = SMT queries (z3 qfbv)",
            "functions_encoded": fenc,
            "source_sha1": digests,
            "bounds": module.BOUNDS[a.tier],
            "tasks": len(tasks),
            "obligations": st["obligations"],
            "discharged": st["discharged"],
            "discharged_by_solver_unsat": st["discharged"] - st["trivially_true"],
            "candidates_sat": st["candidates"],
            "candidates_replayed": replayed,
            "paths_infeasible": st["infeasible"],
            "paths_outside_bound": st["out_of_bound"],
            "solver": "z3 %s, Tactic('qfbv'), fresh solver per query" % _z3v(),
            "solver_queries": st["queries"],
            "solver_sat": st["sat"],
            "solver_unsat": st["unsat"],
            "solver_time_s": round(st["solver_s"], 2),
            "second_solver": {"binary": "/usr/bin/z3 (4.8.12)", "unsat_verdicts_rechecked": st.get("xsolver_checked", 0), "confirmed": st.get("xsolver_agreed", 0), "timed_out": st.get("xsolver_timeout", 0),
                              "note": "thorough tier: every 25th unsat query is dumped as SMT-LIB and re-decided by the independent z3 4.8.12 build; a different verdict or an (error line is exit 2"},
            "witness_targets": {w: (w in witnessed) for w in getattr(module, "WITNESS_TARGETS", [])},
            "cross_validated_paths": xcheck,
            "validation_cases": nvalid,
            "known_findings_active": active,
            "slowest_tasks": sorted([(round(r.get("wall_s", 0), 1), r["task"], r.get("stats", {}).get("paths", 0), r.get("stats", {}).get("queries", 0)) for r in results], reverse=True)[:5],
            "inconclusive": problems[:10],
            "exhaustive": False,
        },
        "assumptions": list(getattr(module, "ASSUMPTIONS", [])),
        "wall_s": round(wall, 2),
        "violations": len(violations),
    }
    # evidence describes runs against /repo only: a run against a scratch tree (LASIO_REPO, used for the
    # seeded changes) writes its record next to that tree instead
    evdir = os.path.join(VERIF, "evidence") if os.path.realpath(REPO) == "/repo" and not a.only else os.path.join(REPO if os.path.realpath(REPO) != "/repo" else "/tmp", "_seed", "evidence")
    os.makedirs(evdir, exist_ok=True)
    json.dump(ev, open(os.path.join(evdir, prop + ".json"), "w"), indent=1)

    print("%s tier=%s tasks=%d paths=%d queries=%d (sat %d / unsat %d) solver=%.1fs obligations=%d discharged=%d candidates=%d xchecked=%d wall=%.1fs"
          % (prop, a.tier, len(tasks), st["paths"], st["queries"], st["sat"], st["unsat"], st["solver_s"], st["obligations"], st["discharged"], st["candidates"], xcheck, wall))
    for path, c, r in violations:
        print("  counterexample %s/%s: %s -> %s" % (c["task"], c["obligation"], json.dumps(c["inputs"])[:300], str(r.get("detail"))[:300]))
        print("VIOLATION property=%s replay=%s" % (prop, path))
    if violations:
        return EXIT_VIOLATION
    if problems:
        for p in problems[:20]:
            print("INCONCLUSIVE: %s" % p)
        return EXIT_INCONCLUSIVE
    return EXIT_OK


def _z3v():
    import z3

    return z3.get_version_string()
