"""Contract stubs for text -> number conversion (numpy / CPython C code).

np.int64(str) and np.float64(str) accept exactly the grammar of Python's int()/float()
(validated differentially against the real numpy by `validate()` on every run).  The result
of a successful conversion of a symbolic text is a SymNum: "the number denoted by this
text"; nothing else about its value is assumed.
"""
import z3
from . import z, core, symre
from .z import is_sym
from .values import SymStr, SymBool, mkbool, B_decide, isdigit

_D = r"\d+(?:_\d+)*"
INT_RE = r"\s*[+-]?" + _D + r"\s*\Z"
FLOAT_RE = (
    r"\s*[+-]?(?:(?:" + _D + r"(?:\.(?:" + _D + r")?)?|\." + _D + r")(?:[eE][+-]?" + _D + r")?)\s*\Z"
)
SPECIAL_RE = r"(?i)\s*[+-]?(?:inf|infinity|nan)\s*\Z"

NW = 26  # width for exponent arithmetic


class SymNum(object):
    """the number denoted by `text` (a SymStr/str in the int or float grammar)"""

    def __init__(self, kind, text, special=False):
        self.kind = kind  # 'int' | 'float'
        self.text = text
        self.special = special  # inf / nan spelling

    def __repr__(self):
        return "<SymNum %s>" % self.kind

    def concretize(self, model):
        t = self.text.concretize(model) if isinstance(self.text, SymStr) else self.text
        import numpy as np

        return (np.int64 if self.kind == "int" else np.float64)(t)

    def isfinite_expr(self):
        if self.special:
            return False
        if self.kind == "int":
            return True
        return z.Not(overflows(self.text))

    def __deepcopy__(self, memo):
        return self

    def __symstr__(self):
        # rendering a symbolic number (shortest repr of a float) is libc/numpy code: such paths
        # are counted as outside the bound rather than modelled
        raise core.OutOfBound("str() of a number parsed from symbolic text")

    __hash__ = None

    def __eq__(self, o):
        if isinstance(o, (int, float)) and not isinstance(o, bool) and o == 0:
            from .values import mkbool

            return mkbool(z.Not(self.nonzero_expr()))
        if isinstance(o, (str, SymStr)):
            return False  # a number is never equal to a text
        raise core.EngineUnsupported("numeric comparison of a symbolic number")

    def __ne__(self, o):
        if isinstance(o, (int, float)) and not isinstance(o, bool) and o == 0:
            from .values import mkbool

            return mkbool(self.nonzero_expr())
        if isinstance(o, (str, SymStr)):
            return True
        raise core.EngineUnsupported("numeric comparison of a symbolic number")

    def nonzero_expr(self):
        """the number is not zero: a digit 1-9 occurs in the mantissa (before any exponent marker)"""
        if self.special:
            return True
        t = SymStr.lift(self.text)
        cs = []
        seen_e = False
        for i in range(t.cap):
            cs.append(z.And(t.inlen(i), z.in_range_c(t.chars[i], 49, 57), z.Not(seen_e)))
            seen_e = z.Or(seen_e, z.And(t.inlen(i), z.in_set_c(t.chars[i], (69, 101))))
        return z.Or(cs)

    def __bool__(self):
        return core.decide(self.nonzero_expr())


def int_value_wide(text, width=84):
    """(value as unsigned BV `width` of the digits, is_negative) of an int-grammar text"""
    t = SymStr.lift(SymStr.lift(text).replace("_", ""))
    t = SymStr.lift(t.strip())
    val = z3.BitVecVal(0, width)
    neg = False
    for i in range(t.cap):
        inl = t.inlen(i)
        d = z.And(inl, isdigit(t.chars[i]))
        dv = z3.ZeroExt(width - 8, z.bv_c(t.chars[i])) - 48
        val = z3.If(z.b_z(d), val * 10 + dv, val)
        neg = z.Or(neg, z.And(inl, z.eq_c(t.chars[i], 45)))
    return val, neg


def int_fits64(text):
    """Boolean: the integer literal fits a signed 64-bit integer"""
    val, neg = int_value_wide(text)
    lim = z3.If(z.b_z(neg), z3.BitVecVal(2 ** 63, 84), z3.BitVecVal(2 ** 63 - 1, 84))
    return z3.ULE(val, lim)


def np_int64(x):
    if B_decide(symre.fullmatch_expr(INT_RE, x)):
        if x.cap > 24:
            raise core.OutOfBound("integer literal longer than 24 characters")
        if x.cap <= 18 or B_decide(z.simp(int_fits64(x))):
            return SymNum("int", x)
        raise OverflowError("Python int too large to convert to C long")
    raise ValueError("invalid literal for int() with base 10: <symbolic>")


PY_INT_BOUND = 200


def py_int(x):
    """int(text) for short texts: a SymInt (|value| <= PY_INT_BOUND, larger values are outside the bound)"""
    from .values import SymInt

    if not B_decide(symre.fullmatch_expr(INT_RE, x)):
        raise ValueError("invalid literal for int() with base 10: <symbolic>")
    val, neg = int_value_wide(x, 40)
    if not B_decide(z.simp(z3.ULE(val, PY_INT_BOUND))):
        raise core.OutOfBound("int(text) beyond +-%d" % PY_INT_BOUND)
    v = z3.Extract(z.IW - 1, 0, val)
    return SymInt(z.simp(z3.If(z.b_z(neg), -v, v)), (-PY_INT_BOUND, PY_INT_BOUND))


def np_float64(x):
    if B_decide(symre.fullmatch_expr(FLOAT_RE, x)):
        return SymNum("float", x)
    if B_decide(symre.fullmatch_expr(SPECIAL_RE, x)):
        return SymNum("float", x, special=True)
    raise ValueError("could not convert string to float: <symbolic>")


py_float = np_float64


def _w(e):
    """widen an IW int / python int to NW bits"""
    if not is_sym(e):
        return z3.BitVecVal(e, NW)
    return z3.SignExt(NW - e.size(), e)


def overflows(text):
    """Boolean: the float literal `text` has magnitude >= 2**1024 * (1 - 2**-54) (-> inf)"""
    t = SymStr.lift(text)
    t = t.replace("_", "").strip()
    t = SymStr.lift(t)
    N = t.cap
    ch = t.chars
    inl = [t.inlen(i) for i in range(N)]
    is_e = [z.And(inl[i], z.in_set_c(ch[i], (101, 69))) for i in range(N)]
    # p_e: position of the exponent marker or n
    p_e = t.n
    for i in range(N - 1, -1, -1):
        p_e = z.ite_i(is_e[i], i, p_e)
    before_e = [z.lt(i, p_e) for i in range(N)]
    is_dot = [z.And(before_e[i], z.eq_c(ch[i], 46)) for i in range(N)]
    p_dot = p_e
    for i in range(N - 1, -1, -1):
        p_dot = z.ite_i(is_dot[i], i, p_dot)
    dig = [z.And(before_e[i], isdigit(ch[i])) for i in range(N)]
    nz = [z.And(dig[i], z.Not(z.eq_c(ch[i], 48))) for i in range(N)]
    any_nz = z.Or(nz)
    p_nz = 0
    for i in range(N - 1, -1, -1):
        p_nz = z.ite_i(nz[i], i, p_nz)
    # exponent value
    ev = z3.BitVecVal(0, NW)
    neg = False
    for i in range(N):
        after = z.And(inl[i], z.gt(i, p_e))
        d = z.And(after, isdigit(ch[i]))
        dv = z3.ZeroExt(NW - 8, z.bv_c(ch[i])) - 48
        ev = z3.If(z.b_z(d), ev * 10 + dv, ev)
        neg = z.Or(neg, z.And(after, z.eq_c(ch[i], 45)))
    ev = z3.If(z.b_z(neg), -ev, ev)
    X = z3.If(z.b_z(z.lt(p_nz, p_dot)), ev + _w(z.sub(z.sub(p_dot, p_nz), 1)), ev - _w(z.sub(p_nz, p_dot)))
    # first 16 significant digits (texts with more are outside the bound: cap <= 16 + sign etc.)
    VW = 60
    val = z3.BitVecVal(0, VW)
    cnt = z3.BitVecVal(0, 5)
    for i in range(N):
        take = z.And(dig[i], z.ge(i, p_nz), z.b_z(z3.ULT(cnt, 16)))
        dv = z3.ZeroExt(VW - 8, z.bv_c(ch[i])) - 48
        val = z3.If(z.b_z(take), val * 10 + dv, val)
        cnt = z3.If(z.b_z(take), cnt + 1, cnt)
    for k in range(16):
        val = z3.If(z3.ULE(cnt, k), val * 10, val)
    over = z3.Or(X > 308, z3.And(X == 308, z3.UGE(val, 1797693134862316)))
    return z.And(any_nz, over)


def validate(alphabet="0159+-.,eE_ infa", maxlen=4, extra=()):
    """differential validation of the grammar contracts and the overflow model against numpy"""
    import itertools
    import re
    import numpy as np

    n = 0
    bad = []
    ri, rf, rs = re.compile(INT_RE), re.compile(FLOAT_RE), re.compile(SPECIAL_RE)

    def one(txt):
        nonlocal n
        n += 1
        try:
            np.int64(txt)
            ok_i = True
        except Exception:
            ok_i = False
        try:
            f = np.float64(txt)
            ok_f = True
        except Exception:
            ok_f = False
            f = None
        m_i = bool(ri.match(txt))
        m_f = bool(rf.match(txt))
        m_s = bool(rs.match(txt))
        if ok_i != m_i or ok_f != (m_f or m_s):
            bad.append((txt, ok_i, m_i, ok_f, m_f, m_s))
            return
        if m_f and not m_s:
            s = SymStr([ord(c) for c in txt], len(txt))
            ov = overflows(s)
            if z._cb(z.simp(ov)) != (not np.isfinite(f)):
                bad.append((txt, "overflow model", z._cb(z.simp(ov)), float(f)))

    for L in range(0, maxlen + 1):
        for tup in itertools.product(alphabet, repeat=L):
            one("".join(tup))
    for txt in list(extra) + [
        "1e308", "1e309", "1.797693e308", "1.797694e308", "17976931e301", "0.17976932e309", "179769.4e303",
        "1.7976931348623157e308", "9e307", "10e307", "100e306", "0.001e311", "0.0018e311", "1e-400", "0e999",
        "1_0e307", "1_8e307", "2E308", "-2e308", "+1.8E+308", "1e+0308", "1e0000308", "1e00309", ".18e309", "18.e307",
    ]:
        one(txt)
    return n, bad
