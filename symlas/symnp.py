"""numpy shim: real numpy for concrete arguments, contract stubs where a symbolic value arrives."""
import numpy as _np
from . import symnum, core, z
from .values import SymStr, SymInt, SymBool, mkbool


class _NP(object):
    nan = _np.nan
    ndarray = _np.ndarray

    @staticmethod
    def int64(x=0):
        if isinstance(x, SymStr):
            return symnum.np_int64(x)
        if isinstance(x, symnum.SymNum):
            if x.kind == "int":
                return x
            raise core.EngineUnsupported("int64(symbolic float)")
        if isinstance(x, (SymInt, SymBool)):
            raise core.EngineUnsupported("np.int64 of a symbolic int")
        return _np.int64(x)

    @staticmethod
    def float64(x=0.0):
        if isinstance(x, SymStr):
            return symnum.np_float64(x)
        if isinstance(x, symnum.SymNum):
            return x if x.kind == "float" else symnum.SymNum("float", x.text)
        return _np.float64(x)

    @staticmethod
    def isfinite(x):
        if isinstance(x, symnum.SymNum):
            return mkbool(x.isfinite_expr())
        return _np.isfinite(x)

    @staticmethod
    def isnan(x):
        if isinstance(x, symnum.SymNum):
            if x.special:
                raise core.EngineUnsupported("isnan of an inf/nan spelling")
            return False
        return _np.isnan(x)

    def __getattr__(self, k):
        return getattr(_np, k)


NP = _NP()
