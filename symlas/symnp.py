"""numpy shim: real numpy for concrete arguments, contract stubs where a symbolic value arrives."""
import numpy as _np
from . import symnum, core, z
from .values import SymStr, SymInt, SymBool, mkbool


class _NP(object):
    nan = _np.nan
    ndarray = _np.ndarray

    @staticmethod
    def int64(x=0):
        if isinstance(x, SymStr):
            x = core.try_concretize_str(x)
            if isinstance(x, str):
                return _np.int64(x)
            return symnum.np_int64(x)
        if isinstance(x, symnum.SymNum):
            if x.kind == "int":
                return x
            raise core.EngineUnsupported("int64(symbolic float)")
        if isinstance(x, (SymInt, SymBool)):
            raise core.EngineUnsupported("np.int64 of a symbolic int")
        return _np.int64(x)

    @staticmethod
    def float64(x=0.0):
        if isinstance(x, SymStr):
            x = core.try_concretize_str(x)
            if isinstance(x, str):
                return _np.float64(x)
            # float() ignores surrounding whitespace: a token with symbolic padding around a
            # forced numeral is still that numeral
            xs = core.try_concretize_str(x.strip()) if core.OPTS["concretize"] else x
            if isinstance(xs, str):
                return _np.float64(xs)
            return symnum.np_float64(x)
        if isinstance(x, symnum.SymNum):
            return x if x.kind == "float" else symnum.SymNum("float", x.text)
        return _np.float64(x)

    @staticmethod
    def isfinite(x):
        if isinstance(x, symnum.SymNum):
            return mkbool(x.isfinite_expr())
        return _np.isfinite(x)

    @staticmethod
    def isnan(x):
        if isinstance(x, symnum.SymNum):
            if x.special:
                raise core.EngineUnsupported("isnan of an inf/nan spelling")
            return False
        return _np.isnan(x)

    @staticmethod
    def genfromtxt(fname, skip_header=0, max_rows=None, names=None, unpack=False, loose=True, **kw):
        """contract stub of numpy.genfromtxt for the way lasio calls it (whitespace-delimited
        floats, '#' comments, loose=False), used when the file is a symbolic stub; validated
        against the real function on concrete files by symnp.validate_genfromtxt()"""
        from .stubs import SymFile

        if not isinstance(fname, SymFile):
            if isinstance(fname, (str, bytes)) or hasattr(fname, "read") or hasattr(fname, "__fspath__"):
                return _np.genfromtxt(fname, skip_header=skip_header, max_rows=max_rows, names=names, unpack=unpack, loose=loose, **kw)
            # a generator / list of lines (numpy accepts those): symbolic members -> stub
            seq = list(fname)
            if not any(isinstance(x, SymStr) for x in seq):
                return _np.genfromtxt(seq, skip_header=skip_header, max_rows=max_rows, names=names, unpack=unpack, loose=loose, **kw)
            fname = SymFile([x[:-1] if isinstance(x, str) and x.endswith("\n") else x for x in seq], terms=[""] * len(seq))
        if kw or names is not None or loose:
            raise core.EngineUnsupported("genfromtxt stub: unsupported arguments")
        if max_rows is not None and max_rows < 1:
            raise ValueError("'max_rows' must be at least 1.")
        it = iter(fname)
        for _ in range(skip_header):
            try:
                next(it)
            except StopIteration:
                break
        rows = []
        ncols = None
        bad = False
        for line in it:
            if isinstance(line, SymStr):
                line = core.try_concretize_str(line)
            first = line.split("#")[0]
            first = first.strip() if isinstance(first, str) else SymStr.lift(first).strip()
            toks = first.split()
            if len(toks) == 0:
                continue
            vals = []
            for t in toks:
                t = core.try_concretize_str(t)
                if not isinstance(t, str):
                    from . import symre
                    from .values import B_decide

                    # not a forced text: numpy would still reject it if it cannot be a float literal
                    if not B_decide(z.Or(symre.fullmatch_expr(symnum.FLOAT_RE, t), symre.fullmatch_expr(symnum.SPECIAL_RE, t))):
                        raise ValueError("could not convert string to float: <symbolic>")
                    t = core.try_concretize_str(t, retry=True)  # the grammar decision may have pinned it down
                    if not isinstance(t, str):
                        raise core.EngineUnsupported("genfromtxt stub: a numeric data token is not determined by the path condition")
                vals.append(float(t))  # ValueError for non-numeric text, as with loose=False
            if ncols is None:
                ncols = len(vals)
            elif len(vals) != ncols:
                bad = True
            else:
                rows.append(None)
            if not bad:
                if ncols is not None and len(rows) and rows[-1] is None:
                    rows[-1] = vals
                elif ncols is not None and not rows:
                    rows.append(vals)
            if max_rows is not None and len(rows) + (1 if bad else 0) >= max_rows and not bad and len(rows) == max_rows:
                break
        if bad:
            raise ValueError("Some errors were detected ! (rows with a different number of columns)")
        if not rows:
            import warnings

            warnings.warn("genfromtxt: Empty input file", stacklevel=2)
            return _np.array([])
        out = _np.squeeze(_np.array(rows, dtype=float))
        return out.T if unpack else out

    def __getattr__(self, k):
        return getattr(_np, k)


def validate_genfromtxt():
    """differential validation of the genfromtxt stub on all files of <= 4 lines over 8 line shapes"""
    import io
    import itertools
    import warnings
    from .stubs import SymFile

    shapes = ["1 2", "3 4", " 5  6 ", "7", "", "# c", "1 2 # t", "x y", "8 9 10"]
    n = 0
    bad = []
    for L in range(0, 5):
        for combo in itertools.product(shapes, repeat=L):
            for skip in (0, 1):
                for mr in (None, 1, 2):
                    n += 1
                    lines = list(combo)

                    def run(f):
                        with warnings.catch_warnings():
                            warnings.simplefilter("ignore")
                            try:
                                a = f()
                                return ("ok", a.shape, a.tolist())
                            except Exception as e:
                                return ("exc", type(e).__name__)

                    r1 = run(lambda: _np.genfromtxt(io.StringIO("".join(l + "\n" for l in lines)), skip_header=skip, max_rows=mr, names=None, unpack=True, loose=False))
                    r2 = run(lambda: _NP.genfromtxt(SymFile(lines), skip_header=skip, max_rows=mr, names=None, unpack=True, loose=False))
                    if repr(r1) != repr(r2):
                        bad.append((lines, skip, mr, r1, r2))
    return n, bad


NP = _NP()
