"""symlas: bounded symbolic execution of the real lasio modules (see /verif/DESIGN.md)."""
