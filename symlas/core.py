"""Path exploration: re-execution with a decision trie, concolic following, sliced queries.

A *harness* is a plain Python function.  It creates symbolic inputs, states assumptions
(`assume`), calls the instrumented lasio code and states obligations (`oblige`).  Every
`bool()` of a symbolic Boolean is a decision: the current model picks the direction with
no solver call and the flipped prefix is queued; a queued prefix is (in)validated by one
solver query (sliced to the constraints that share variables with the flipped literal)
when it is popped.
"""
import os
import sys
import time
import z3
from . import z

DUMP_DIR = os.environ.get("SYMLAS_DUMP")
QUERY_TIMEOUT_MS = int(os.environ.get("SYMLAS_QUERY_TIMEOUT_MS", "120000"))


class Abort(BaseException):
    """the current path is infeasible (or leaves the stated bound) - not an error"""


class OutOfBound(Abort):
    """the path needs more than a stated bound (matches per line, pieces, ...)"""


class Inconclusive(BaseException):
    """solver said unknown / engine cannot model something: never a pass"""


class EngineUnsupported(Inconclusive):
    pass


class Stats(object):
    def __init__(self):
        self.paths = 0
        self.infeasible = 0
        self.out_of_bound = 0
        self.queries = 0
        self.solver_s = 0.0
        self.sat = 0
        self.unsat = 0
        self.obligations = 0
        self.discharged = 0
        self.trivially_true = 0
        self.candidates = 0
        self.decisions = 0
        self.model_hits = 0
        self.xsolver_checked = 0
        self.xsolver_agreed = 0
        self.xsolver_timeout = 0

    def as_dict(self):
        return dict(self.__dict__)

    def merge(self, d):
        for k, v in d.items():
            setattr(self, k, getattr(self, k, 0) + v)


STATS = Stats()

# Cross-path cache of infeasibility facts.  A query "C ∧ e is unsat" (C = the sliced subset
# of the path condition) stays unsat on any later path whose path condition contains C,
# so it is recorded as  id(e) -> [frozenset(ids of C)]  and reused by a subset test.
# ASTs are pinned (kept referenced) so that z3's hash-consing gives the same id to the same
# structure on later paths.
UNSAT_CACHE = {}
_PIN = []
CACHE_HITS = [0]


def _cache_lookup(e, pcids):
    for core_ids in UNSAT_CACHE.get(e.get_id(), ()):
        if core_ids <= pcids:
            CACHE_HITS[0] += 1
            return True
    return False


def _cache_store(e, constraints):
    if len(_PIN) > 400000:
        UNSAT_CACHE.clear()
        del _PIN[:]
    _PIN.append(e)
    _PIN.extend(constraints)
    UNSAT_CACHE.setdefault(e.get_id(), []).append(frozenset(c.get_id() for c in constraints))


def solve(constraints, want_model=True):
    """one non-incremental query with the qfbv tactic.  returns ('sat', model)|('unsat', None)"""
    s = z3.Tactic("qfbv").solver()
    s.set("timeout", QUERY_TIMEOUT_MS)
    for c in constraints:
        s.add(z.b_z(c))
    if DUMP_DIR:
        os.makedirs(DUMP_DIR, exist_ok=True)
        with open(os.path.join(DUMP_DIR, "q%05d.smt2" % STATS.queries), "w") as f:
            f.write("(set-logic QF_BV)\n" + s.sexpr() + "(check-sat)\n")
    t0 = time.time()
    r = str(s.check())
    STATS.queries += 1
    STATS.solver_s += time.time() - t0
    if r == "sat":
        STATS.sat += 1
        return "sat", (s.model() if want_model else None)
    if r == "unsat":
        STATS.unsat += 1
        if XCHECK_EVERY and STATS.unsat % XCHECK_EVERY == 0:
            _second_solver(s)
        return "unsat", None
    raise Inconclusive("solver answered %s (%s) after %.1fs" % (r, s.reason_unknown(), time.time() - t0))


XCHECK_EVERY = int(os.environ.get("SYMLAS_XCHECK_EVERY", "0"))
XCHECK_BIN = os.environ.get("SYMLAS_XCHECK_BIN", "/usr/bin/z3")


def _second_solver(s):
    """re-decide an unsat query with an independent solver build (z3 4.8.12 binary): any answer
    other than unsat (or an (error line) makes the run inconclusive"""
    import subprocess
    import tempfile

    with tempfile.NamedTemporaryFile("w", suffix=".smt2", delete=False, dir=os.environ.get("TMPDIR", "/tmp")) as f:
        f.write("(set-logic QF_BV)\n" + s.sexpr() + "(check-sat)\n")
        path = f.name
    try:
        p = subprocess.run([XCHECK_BIN, "-T:120", path], stdout=subprocess.PIPE, stderr=subprocess.STDOUT, text=True, timeout=180)
        out = p.stdout.strip()
    except Exception as e:
        out = "error: %r" % (e,)
    finally:
        try:
            os.remove(path)
        except OSError:
            pass
    STATS.xsolver_checked = getattr(STATS, "xsolver_checked", 0) + 1
    if out.splitlines()[:1] == ["unsat"] and "(error" not in out:
        STATS.xsolver_agreed = getattr(STATS, "xsolver_agreed", 0) + 1
        return
    if out.startswith("timeout") or out.splitlines()[:1] == ["unknown"]:
        STATS.xsolver_timeout = getattr(STATS, "xsolver_timeout", 0) + 1
        return
    raise Inconclusive("second solver (%s) does not confirm an unsat verdict: %s" % (XCHECK_BIN, out[:200]))


def slice_constraints(pc, seeds):
    """constraints of pc transitively sharing variables with the seed expressions"""
    need = set()
    for e in seeds:
        if z.is_sym(e):
            need |= z.vars_of(e)
    av = [(a, z.vars_of(a)) for a in pc if z.is_sym(a)]
    picked = [False] * len(av)
    changed = True
    while changed:
        changed = False
        for i, (a, v) in enumerate(av):
            if not picked[i] and (v & need):
                picked[i] = True
                if not v <= need:
                    need |= v
                    changed = True
    return [a for i, (a, v) in enumerate(av) if picked[i]], need


def merge_models(base, new):
    """model that takes `new` where defined and `base` elsewhere"""
    if base is None:
        return new
    m = z3.Model()
    seen = set()
    for d in new.decls():
        if d.arity() == 0:
            m.update_value(d(), new[d])
            seen.add(d.name())
    for d in base.decls():
        if d.arity() == 0 and d.name() not in seen:
            m.update_value(d(), base[d])
    return m


def mval(model, e):
    """value of a (possibly concrete) value under a model, as Python bool/int"""
    if not z.is_sym(e):
        return e
    v = model.eval(e, model_completion=True)
    if z3.is_true(v):
        return True
    if z3.is_false(v):
        return False
    if z3.is_bv_value(v):
        return v.as_signed_long() if v.size() == z.IW else v.as_long()
    v = z3.simplify(v)
    if z3.is_true(v):
        return True
    if z3.is_false(v):
        return False
    if z3.is_bv_value(v):
        return v.as_signed_long() if v.size() == z.IW else v.as_long()
    raise Inconclusive("model does not evaluate %s" % v.sexpr()[:200])


class Ctx(object):
    def __init__(self, prefix, parent_model, sigs=()):
        self.sigs = list(sigs)
        self.prefix = list(prefix)
        self.pos = 0
        self.pc = []
        self.pcids = set()
        self.model = None
        self.parent_model = parent_model
        self.children = []  # (prefix, model at the decision)
        self.fresh = 0
        self.obligations = []  # dicts
        self.notes = {}
        self.witnessed = set()
        self.inputs = {}  # name -> symbolic input (for concretisation)
        self.known_exclusions = []  # z3 Bool exprs conjoined to obligation queries
        self.lits = {}  # AST id of a decided condition -> direction taken
        self._keep = []

    def _pc_add(self, e):
        self.pc.append(e)
        if z.is_sym(e):
            self.pcids.add(e.get_id())

    # ---------------------------------------------------------------- model handling
    def replaying(self):
        return self.pos < len(self.prefix)

    def ensure_model(self):
        if self.model is None:
            if self.parent_model is not None and not self.prefix and not self.pc:
                self.model = self.parent_model
                return self.model
            r, m = solve(self.pc)
            if r == "unsat":
                raise Abort("assumptions infeasible")
            self.model = m
        return self.model

    def assume(self, e):
        c = z._cb(e)
        if c is True:
            return
        if c is False:
            raise Abort("assumption false")
        self._pc_add(e)
        if self.model is not None and mval(self.model, e) is not True:
            self.model = None

    def decide(self, cond):
        c = z._cb(cond)
        if c is not None:
            return c
        # The cache of decided conditions is keyed by the *unsimplified* AST: z3's simplifier
        # orders AC arguments by AST id, which depends on what earlier runs left alive, so
        # simplified forms are not stable between a path and its replays.
        k = cond.get_id()
        if k in self.lits:
            return self.lits[k]
        if z3.is_not(cond):
            ka = cond.arg(0).get_id()
            if ka in self.lits:
                return not self.lits[ka]
        sc = z.simp(cond)
        if not z.is_sym(sc):
            return bool(sc)
        d = self._decide(sc)
        self.lits[k] = d
        self._keep.append(cond)  # keep the AST alive so that its id stays unique
        return d

    def _site(self):
        """signature of the code location asking for a decision (replay-divergence guard)"""
        f = sys._getframe(3)
        n = 0
        while f is not None and n < 12:
            fn = f.f_code.co_filename
            if "/symlas/" not in fn:
                return hash((fn, f.f_lineno)) & 0xFFFFFF
            f = f.f_back
            n += 1
        return 0

    def _decide(self, cond):
        STATS.decisions += 1
        site = self._site()
        if self.pos < len(self.prefix):
            if self.pos < len(self.sigs) and self.sigs[self.pos] != site:
                raise Inconclusive("replay diverged from the recorded path at decision %d (non-deterministic harness or engine)" % self.pos)
            d = self.prefix[self.pos]
            lit = cond if d else z3.Not(cond)
            last = self.pos == len(self.prefix) - 1
            self.pos += 1
            if last:
                # the flipped decision: its feasibility was established (and a model found) when
                # it was queued, so no query and no wasted re-execution of infeasible flips
                self._pc_add(lit)
                self.model = self.parent_model
                if self.model is None or mval(self.model, lit) is not True:
                    raise Inconclusive("queued flip is not satisfied by its recorded model (engine error)")
            else:
                self._pc_add(lit)
                if self.model is not None and mval(self.model, lit) is not True:
                    self.model = None  # a model obtained mid-replay (by an obligation) went stale
            return d
        m = self.ensure_model()
        d = mval(m, cond)
        self.sigs = self.sigs[: self.pos] + [site]
        flip = z3.Not(cond) if d else cond
        if _cache_lookup(flip, self.pcids):
            r, m2 = "unsat", None
        else:
            sl, _ = slice_constraints(self.pc, [flip])
            r, m2 = solve(sl + [flip])
            if r == "unsat":
                _cache_store(flip, sl)
        if r == "sat":
            self.children.append((self.prefix[: self.pos] + [not d], merge_models(m, m2), list(self.sigs)))
        else:
            STATS.infeasible += 1
        self.prefix.append(d)
        self.pos += 1
        self._pc_add(cond if d else z3.Not(cond))
        return d

    # ---------------------------------------------------------------- obligations
    def check_sat(self, extra):
        """is pc ∧ extra satisfiable?  returns model or None"""
        extra = [e for e in extra]
        for e in extra:
            if z._cb(e) is False:
                return None
        extra = [e for e in extra if z._cb(e) is None]
        if not extra:
            return self.ensure_model()
        m = self.model
        if m is not None and all(mval(m, e) is True for e in extra):
            STATS.model_hits += 1
            return m
        key = extra[0] if len(extra) == 1 else None
        if key is not None and _cache_lookup(key, self.pcids):
            return None
        sl, _ = slice_constraints(self.pc, extra)
        r, m2 = solve(sl + extra)
        if r == "unsat":
            if key is not None:
                _cache_store(key, sl)
            return None
        return merge_models(self.ensure_model(), m2)


CTX = None


def ctx():
    if CTX is None:
        raise RuntimeError("no symbolic context (call inside explore())")
    return CTX


def decide(cond):
    return ctx().decide(cond)


def assume(e):
    ctx().assume(e)


def fresh_name(base):
    c = ctx()
    c.fresh += 1
    return "%s!%d" % (base, c.fresh)


OPTS = {"concretize": False}
NOT_FORCED = set()


def try_concretize(e):
    """if the path condition forces a single value for the int expression e, return that
    constant (one query), else e.  Turns positions that are fixed by the preconditions (e.g.
    regex group boundaries inside a mostly concrete line) into Python ints, so that everything
    downstream folds."""
    if not z.is_sym(e) or not OPTS["concretize"] or CTX is None:
        return e
    k = e.get_id()
    if k in NOT_FORCED:
        return e  # found unforced on an earlier path: not trying again is always sound
    e2 = z.simp(e)
    if not z.is_sym(e2):
        return e2
    c = CTX
    m = c.ensure_model()
    v = mval(m, e2)
    neq = z.Not(z.eq_i(e, v))
    if c.check_sat([neq]) is None:
        return v
    NOT_FORCED.add(k)
    _PIN.append(e)
    return e


def try_concretize_str(s, retry=False):
    """the Python str if the path condition forces the whole content of the symbolic string"""
    from .values import SymStr

    if not isinstance(s, SymStr) or CTX is None:
        return s
    if s.is_concrete():
        return s.as_str()
    if not OPTS["concretize"]:
        return s
    c = CTX
    m = c.ensure_model()
    v = s.concretize(m)
    ne = z.Not(s.eq_expr(v))
    if z.is_sym(ne) and ne.get_id() in NOT_FORCED and not retry:
        return s
    if c.check_sat([ne]) is None:
        return v
    if z.is_sym(ne):
        NOT_FORCED.add(ne.get_id())
        _PIN.append(ne)
    return s


WITNESSED = set()
PATH_HOOKS = []  # run before every explored path (the loader registers the reset of library-level state)


def witness(name, cond=True):
    """vacuity guard: record that `name` is reachable when pc ∧ cond is satisfiable"""
    c = ctx()
    if name in WITNESSED:
        return
    if c.check_sat([cond]) is not None:
        c.witnessed.add(name)
        WITNESSED.add(name)


def oblige_all(pairs, inputs=None):
    """several obligations at once: one query for the conjunction, individual queries only
    when that query is satisfiable (so a run without counterexamples costs one query)"""
    c = ctx()
    pairs = [(n, e) for n, e in pairs]
    sym = [(n, e) for n, e in pairs if z._cb(e) is None]
    ok = True
    for n, e in pairs:
        if z._cb(e) is True:
            STATS.obligations += 1
            STATS.discharged += 1
            STATS.trivially_true += 1
        elif z._cb(e) is False:
            ok = oblige(n, False, inputs) and ok
    if not sym:
        return ok
    m = c.check_sat([z.Or([z.Not(e) for _, e in sym])] + list(c.known_exclusions))
    if m is None:
        STATS.obligations += len(sym)
        STATS.discharged += len(sym)
        c.obligations.append({"name": "%s (+%d more)" % (sym[0][0], len(sym) - 1), "status": "discharged"})
        return ok
    for n, e in sym:
        ok = oblige(n, e, inputs) and ok
    return ok


def oblige(name, expr, inputs=None, info=None):
    """state an obligation at the current point of the path.

    pc ∧ known-exclusions ∧ ¬expr is sent to the solver: unsat -> discharged, sat -> candidate
    counterexample (concretised with `inputs`, a dict name -> symbolic value)."""
    c = ctx()
    STATS.obligations += 1
    rec = {"name": name, "status": None}
    if info:
        rec["info"] = info
    cb = z._cb(expr)
    if cb is True:
        STATS.discharged += 1
        STATS.trivially_true += 1
        rec["status"] = "discharged"
        c.obligations.append(rec)
        return True
    neg = z.Not(expr)
    m = c.check_sat([neg] + list(c.known_exclusions))
    if m is None:
        STATS.discharged += 1
        rec["status"] = "discharged"
        c.obligations.append(rec)
        return True
    STATS.candidates += 1
    rec["status"] = "candidate"
    from .values import concretize
    src = inputs if inputs is not None else c.inputs
    rec["inputs"] = {k: concretize(v, m) for k, v in src.items()}
    c.obligations.append(rec)
    return False


def explore(fn, max_paths=100000, deadline=None, on_path=None):
    """run fn() over all feasible paths.  Returns list of per-path records."""
    global CTX
    pending = [([], None, [])]
    records = []
    witnessed = set()
    WITNESSED.clear()
    while pending:
        if STATS.paths >= max_paths:
            raise Inconclusive("path bound %d reached with %d prefixes pending" % (max_paths, len(pending)))
        if deadline is not None and time.time() > deadline:
            raise Inconclusive("time budget exhausted with %d prefixes pending" % len(pending))
        pre, pm, sg = pending.pop()
        c = CTX = Ctx(pre, pm, sg)
        for hook in PATH_HOOKS:
            hook()
        try:
            res = fn()
        except OutOfBound:
            STATS.out_of_bound += 1
            pending.extend(c.children)
            continue
        except Abort:
            STATS.infeasible += 1
            pending.extend(c.children)
            continue
        finally:
            CTX = None
        STATS.paths += 1
        pending.extend(c.children)
        witnessed |= c.witnessed
        rec = {"result": res, "obligations": c.obligations, "notes": c.notes, "prefix_len": len(c.prefix)}
        if on_path is not None:
            CTX = c
            try:
                on_path(rec, c)
            finally:
                CTX = None
        records.append(rec)
    return records, witnessed
