"""Symbolic proxy values: SymBool, SymInt, SymStr (bounded, Latin-1 characters).

Proxies deliberately do not subclass bool/int/str: C code that would read a concrete
payload gets a TypeError instead of a silently wrong value.
"""
import z3
from . import z
from .z import CW, IW, is_sym
from . import core
from .core import EngineUnsupported, OutOfBound

# characters whose upper()/lower() leaves Latin-1 or changes length: excluded from every
# fresh symbolic string (stated bound of the alphabet)
EXCLUDED_CHARS = (0xB5, 0xDF, 0xFF)
WS = (9, 10, 11, 12, 13, 28, 29, 30, 31, 32, 0x85, 0xA0)  # str.isspace() within Latin-1

PADCAP = 12  # bound on any symbolic padding produced by ljust/rjust/" " * n


def isws(c):
    return z.in_set_c(c, WS)


def isdigit(c):
    return z.in_range_c(c, 48, 57)


_case_cache = {}


def _case_c(c, up):
    k = (c.get_id(), up)
    r = _case_cache.get(k)
    if r is not None:
        return r[1]
    if up:
        cond = z.Or(z.in_range_c(c, 97, 122), z.And(z.in_range_c(c, 0xE0, 0xFE), z.Not(z.eq_c(c, 0xF7))))
        e = z._fast_ite_bv(cond, z._BVRef(z3.Z3_mk_bvsub(z._CREF, c.ast, z.bv_c(32).ast), z._CTX), c)
    else:
        cond = z.Or(z.in_range_c(c, 65, 90), z.And(z.in_range_c(c, 0xC0, 0xDE), z.Not(z.eq_c(c, 0xD7))))
        e = z._fast_ite_bv(cond, z._BVRef(z3.Z3_mk_bvadd(z._CREF, c.ast, z.bv_c(32).ast), z._CTX), c)
    if len(_case_cache) > 100000:
        _case_cache.clear()
    _case_cache[k] = (c, e)
    return e


def upper_c(c):
    if not is_sym(c):
        u = chr(c).upper()
        return ord(u) if len(u) == 1 and ord(u) < 256 else c
    return _case_c(c, True)


def lower_c(c):
    if not is_sym(c):
        u = chr(c).lower()
        return ord(u) if len(u) == 1 and ord(u) < 256 else c
    return _case_c(c, False)


# ------------------------------------------------------------------------------- SymBool
class SymBool(object):
    __slots__ = ("e",)

    def __init__(self, e):
        self.e = e

    def __bool__(self):
        return core.decide(self.e)

    def __invert__(self):
        return mkbool(z.Not(self.e))

    def __and__(self, o):
        return mkbool(z.And(self.e, B(o)))

    __rand__ = __and__

    def __or__(self, o):
        return mkbool(z.Or(self.e, B(o)))

    __ror__ = __or__

    def __eq__(self, o):
        if isinstance(o, (bool, SymBool)):
            return mkbool(z.Iff(self.e, B(o)))
        return bool(self) == o

    def __ne__(self, o):
        r = self.__eq__(o)
        return mkbool(z.Not(B(r))) if isinstance(r, SymBool) else (not r)

    __hash__ = None

    def __repr__(self):
        return "<SymBool>"


def B(x):
    """z3/py boolean of a bool-ish value"""
    if isinstance(x, SymBool):
        return x.e
    if isinstance(x, z3.ExprRef):
        return x
    if isinstance(x, (SymInt, SymStr)):
        return x.truth()
    return bool(x)


def mkbool(e):
    c = z._cb(e)
    if c is not None:
        return c
    return SymBool(e)


# ------------------------------------------------------------------------------- SymInt
class SymInt(object):
    __slots__ = ("e", "rng")

    def __init__(self, e, rng=None):
        self.e = e
        self.rng = rng

    def truth(self):
        return z.Not(z.eq_i(self.e, 0))

    def __bool__(self):
        return core.decide(self.truth())

    def _r(self, f):
        return None if self.rng is None else f(self.rng)

    def __add__(self, o):
        if not isinstance(o, (int, SymInt)) or isinstance(o, bool) and False:
            return NotImplemented
        if isinstance(o, int):
            return mkint(z.add(self.e, o), self._r(lambda r: (r[0] + o, r[1] + o)))
        r = None
        if self.rng and o.rng:
            r = (self.rng[0] + o.rng[0], self.rng[1] + o.rng[1])
        return mkint(z.add(self.e, o.e), r)

    __radd__ = __add__

    def __sub__(self, o):
        if not isinstance(o, (int, SymInt)):
            return NotImplemented
        if isinstance(o, int):
            return mkint(z.sub(self.e, o), self._r(lambda r: (r[0] - o, r[1] - o)))
        r = None
        if self.rng and o.rng:
            r = (self.rng[0] - o.rng[1], self.rng[1] - o.rng[0])
        return mkint(z.sub(self.e, o.e), r)

    def __rsub__(self, o):
        if not isinstance(o, int):
            return NotImplemented
        return mkint(z.sub(o, self.e), self._r(lambda r: (o - r[1], o - r[0])))

    def __neg__(self):
        return mkint(z.sub(0, self.e), self._r(lambda r: (-r[1], -r[0])))

    def __mul__(self, o):
        if isinstance(o, int):
            if o == 0:
                return 0
            if o == 1:
                return self
            return mkint(self.e * z.bv_i(o))
        if isinstance(o, str):
            return spaces(self.e, o)
        if isinstance(o, SymInt):
            return mkint(self.e * o.e)
        return NotImplemented

    __rmul__ = __mul__

    def __lt__(self, o):
        return mkbool(z.lt(self.e, I(o)))

    def __le__(self, o):
        return mkbool(z.le(self.e, I(o)))

    def __gt__(self, o):
        return mkbool(z.gt(self.e, I(o)))

    def __ge__(self, o):
        return mkbool(z.ge(self.e, I(o)))

    def __eq__(self, o):
        if isinstance(o, (int, SymInt)):
            return mkbool(z.eq_i(self.e, I(o)))
        if isinstance(o, float) and o == int(o):
            return mkbool(z.eq_i(self.e, int(o)))
        return False

    def __ne__(self, o):
        r = self.__eq__(o)
        return mkbool(z.Not(B(r))) if isinstance(r, SymBool) else (not r)

    __hash__ = None

    def __index__(self):
        if self.rng is None:
            raise EngineUnsupported("SymInt used as a concrete index without a range hint")
        return self.concretize_in(self.rng[0], self.rng[1])

    def concretize_in(self, lo, hi):
        """fork over the values lo..hi by binary search (deterministic decisions; infeasible
        halves are pruned by the explorer's eager flip queries)"""
        e = core.try_concretize(self.e)
        if not is_sym(e):
            return e
        while lo < hi:
            mid = (lo + hi) // 2
            if core.decide(z.le(e, mid)):
                hi = mid
            else:
                lo = mid + 1
        core.assume(z.eq_i(e, lo))
        return lo

    def __int__(self):
        return self.__index__()

    def __repr__(self):
        return "<SymInt>"


def I(x):
    if isinstance(x, SymInt):
        return x.e
    if isinstance(x, bool):
        return int(x)
    if isinstance(x, int):
        return x
    if isinstance(x, z3.ExprRef):
        return x
    if isinstance(x, SymBool):
        return z.ite_i(x.e, 1, 0)
    raise TypeError("not an int-like: %r" % type(x))


def mkint(e, rng=None):
    if not is_sym(e):
        return e
    return SymInt(e, rng)


def fresh_int(name, lo, hi):
    if not (-(1 << (IW - 1)) <= lo <= hi < (1 << (IW - 1))):
        raise ValueError("fresh_int(%r, %r, %r): range does not fit the %d-bit signed integers of the engine" % (name, lo, hi, IW))
    v = z3.BitVec(name, IW)
    core.assume(z3.And(v >= lo, v <= hi))
    return SymInt(v, (lo, hi))


def fresh_bool(name):
    return SymBool(z3.Bool(name))


# ------------------------------------------------------------------------------- SymStr
def _shift_left(chars, k, cap_out):
    """chars shifted left by symbolic/concrete k (result[i] = chars[i+k]); log-shifter"""
    if not is_sym(k):
        out = list(chars[k : k + cap_out])
        return out + [0] * (cap_out - len(out))
    cur = list(chars)
    nbits = max(1, (len(cur)).bit_length())
    for b in range(nbits):
        bit = z3.Extract(b, b, k) == 1
        sh = 1 << b
        cur = [z.ite_c(bit, cur[i + sh] if i + sh < len(cur) else 0, cur[i]) for i in range(len(cur))]
    cur = cur[:cap_out]
    return cur + [0] * (cap_out - len(cur))


class SymStr(object):
    """bounded string: `chars` (capacity) of char values + length `n` (int or BV)."""

    __slots__ = ("chars", "n", "maxlen", "_memo")

    def __init__(self, chars, n, maxlen=None):
        self.chars = list(chars)
        self.n = n
        self.maxlen = len(self.chars) if maxlen is None else min(maxlen, len(self.chars))
        self._memo = None
        if len(self.chars) >= (1 << (IW - 1)) and (is_sym(n) or any(is_sym(c) for c in self.chars)):
            # positions in such a string do not fit the engine's signed integers: never wrap silently
            raise core.OutOfBound("symbolic string longer than %d characters" % ((1 << (IW - 1)) - 1))

    # ---- construction
    @property
    def cap(self):
        return len(self.chars)

    @staticmethod
    def lift(x):
        if isinstance(x, SymStr):
            return x
        if isinstance(x, str):
            for ch in x:
                if ord(ch) > 255:
                    raise EngineUnsupported("character %r outside the Latin-1 alphabet" % ch)
            return SymStr([ord(c) for c in x], len(x))
        if isinstance(x, (bytes, bytearray)):
            return SymStr(list(x), len(x))  # raw bytes compared with a symbolic byte string
        raise TypeError("cannot lift %r to SymStr" % type(x))

    @staticmethod
    def fresh(name, cap, minlen=0, maxlen=None, fixed_len=None):
        chars = [z3.BitVec("%s.%d" % (name, i), CW) for i in range(cap)]
        for c in chars:
            core.assume(z3.And([c != x for x in EXCLUDED_CHARS]))
        if fixed_len is not None:
            return SymStr(chars[:fixed_len], fixed_len)
        n = z3.BitVec(name + ".n", IW)
        mx = cap if maxlen is None else maxlen
        core.assume(z3.And(n >= minlen, n <= mx))
        return SymStr(chars, n, mx)

    def is_concrete(self):
        return not is_sym(self.n) and not any(is_sym(c) for c in self.chars[: self.n])

    def as_str(self):
        return "".join(chr(c) for c in self.chars[: self.n])

    def inlen(self, i):
        return z.lt(i, self.n)

    def at(self, idx):
        """char at int/BV index"""
        if not is_sym(idx):
            return self.chars[idx] if 0 <= idx < self.cap else 0
        c = 0
        for i in range(self.cap - 1, -1, -1):
            c = z.ite_c(z.eq_i(idx, i), self.chars[i], c)
        return c

    def sub(self, start, end):
        """substring [start, end) for 0 <= start <= end <= n"""
        n = z.sub(end, start)
        if not is_sym(start):
            if not is_sym(n):
                return mkstr(SymStr(self.chars[start : start + n], n))
            return mkstr(SymStr(self.chars[start:], n, self.maxlen - start))
        cap = self.cap
        return mkstr(SymStr(_shift_left(self.chars, start, cap), n, self.maxlen))

    # ---- python protocol
    def __len__(self):
        raise EngineUnsupported("native len() on a symbolic string")

    def length(self):
        return mkint(self.n, (0, self.maxlen))

    def truth(self):
        return z.Not(z.eq_i(self.n, 0))

    def __bool__(self):
        return core.decide(self.truth())

    def __str__(self):
        raise EngineUnsupported("native str() on a symbolic string")

    def __format__(self, spec):
        raise EngineUnsupported("native format() on a symbolic string")

    def __repr__(self):
        return "<SymStr cap=%d>" % self.cap

    def __iter__(self):
        raise EngineUnsupported("iteration over a symbolic string")

    __hash__ = None

    def __deepcopy__(self, memo):
        return self

    def __copy__(self):
        return self

    # ---- comparisons
    def eq_expr(self, o):
        if isinstance(o, str) and any(ord(ch) > 255 for ch in o):
            return False  # symbolic strings range over Latin-1 only (stated alphabet bound)
        o = SymStr.lift(o)
        m = min(self.cap, o.cap)
        cs = [z.eq_i(self.n, o.n), z.le(self.n, m)]
        for i in range(m):
            cs.append(z.Or(z.ge(i, self.n), z.eq_c(self.chars[i], o.chars[i])))
        return z.And(cs)

    def __eq__(self, o):
        if not isinstance(o, (str, SymStr)):
            return False
        return mkbool(self.eq_expr(o))

    def __ne__(self, o):
        if not isinstance(o, (str, SymStr)):
            return True
        return mkbool(z.Not(self.eq_expr(o)))

    # ---- building
    def __add__(self, o):
        if not isinstance(o, (str, SymStr)):
            return NotImplemented
        return concat([self, o])

    def __radd__(self, o):
        if not isinstance(o, (str, SymStr)):
            return NotImplemented
        return concat([o, self])

    def __mul__(self, k):
        if isinstance(k, int):
            return concat([self] * k) if k > 0 else ""
        raise EngineUnsupported("symbolic string * symbolic int")

    __rmul__ = __mul__

    def _norm_index(self, k, default):
        if k is None:
            return default
        e = I(k)
        n = self.n
        if not is_sym(e) and not is_sym(n):
            if e < 0:
                e = max(0, e + n)
            return min(e, n)
        neg = z.lt(e, 0)
        en = z.add(e, n)
        return z.ite_i(neg, z.ite_i(z.lt(en, 0), 0, en), z.ite_i(z.gt(e, n), n, e))

    def __getitem__(self, k):
        if isinstance(k, slice):
            if k.step not in (None, 1):
                raise EngineUnsupported("extended slice of a symbolic string")
            a = self._norm_index(k.start, 0)
            b = self._norm_index(k.stop, self.n)
            b = z.ite_i(z.lt(b, a), a, b)
            return self.sub(a, b)
        e = I(k)
        ok = z.And(z.lt(e, self.n), z.ge(e, z.sub(0, self.n)))
        if not B_decide(ok):
            raise IndexError("string index out of range")
        e = z.ite_i(z.lt(e, 0), z.add(e, self.n), e)
        return mkstr(SymStr([self.at(e)], 1))

    # ---- predicates
    def startswith(self, p):
        if isinstance(p, tuple):
            return mkbool(z.Or([B(self.startswith(q)) for q in p]))
        p = SymStr.lift(p)
        cs = [z.le(p.n, self.n)]
        for i in range(p.cap):
            if i < self.cap:
                cs.append(z.Or(z.ge(i, p.n), z.eq_c(self.chars[i], p.chars[i])))
            else:
                cs.append(z.ge(i, p.n))
        return mkbool(z.And(cs))

    def endswith(self, p):
        if isinstance(p, tuple):
            return mkbool(z.Or([B(self.endswith(q)) for q in p]))
        p = SymStr.lift(p)
        if is_sym(p.n):
            raise EngineUnsupported("endswith(symbolic-length suffix)")
        k = p.n
        cs = [z.ge(self.n, k)]
        for j in range(k):
            cs.append(z.eq_c(self.at(z.sub(self.n, k - j)), p.chars[j]))
        return mkbool(z.And(cs))

    def _find_vec(self, p):
        """list of booleans: concrete-length p occurs at position i (i = 0..cap)"""
        p = SymStr.lift(p)
        if is_sym(p.n):
            out = []
            for i in range(self.cap + 1):
                cs = [z.le(z.add(p.n, i), self.n)]
                for j in range(p.cap):
                    if i + j < self.cap:
                        cs.append(z.Or(z.ge(j, p.n), z.eq_c(self.chars[i + j], p.chars[j])))
                    else:
                        cs.append(z.ge(j, p.n))
                out.append(z.And(cs))
            return out
        k = p.n
        out = []
        for i in range(self.cap + 1):
            if i + k > self.cap:
                out.append(z.ge(self.n, i) if k == 0 else False)
                continue
            out.append(z.And([z.le(i + k, self.n)] + [z.eq_c(self.chars[i + j], p.chars[j]) for j in range(k)]))
        return out

    def __contains__(self, p):
        return mkbool(z.Or(self._find_vec(p)))

    def contains(self, p):
        return self.__contains__(p)

    def find(self, p, start=None):
        if start is not None:
            raise EngineUnsupported("find with start")
        v = self._find_vec(p)
        r = -1
        for i in range(len(v) - 1, -1, -1):
            r = z.ite_i(v[i], i, r)
        return mkint(r, (-1, self.maxlen))

    def rfind(self, p):
        v = self._find_vec(p)
        r = -1
        for i in range(len(v)):
            r = z.ite_i(v[i], i, r)
        return mkint(r, (-1, self.maxlen))

    def index(self, p):
        r = self.find(p)
        if r == -1:
            raise ValueError("substring not found")
        return r

    def count(self, p):
        p = SymStr.lift(p)
        if is_sym(p.n) or p.n != 1:
            raise EngineUnsupported("count of a multi-character needle")
        r = 0
        for i in range(self.cap):
            r = z.add(r, z.ite_i(z.And(self.inlen(i), z.eq_c(self.chars[i], p.chars[0])), 1, 0))
        return mkint(r, (0, self.maxlen))

    def _all(self, pred, nonempty=True):
        cs = [z.Or(z.ge(i, self.n), pred(self.chars[i])) for i in range(self.cap)]
        if nonempty:
            cs.append(self.truth())
        return mkbool(z.And(cs))

    def isdigit(self):
        # Latin-1: 0-9 and superscripts ¹²³
        return self._all(lambda c: z.Or(isdigit(c), z.in_set_c(c, (0xB2, 0xB3, 0xB9))))

    def isspace(self):
        return self._all(isws)

    def _strip_bounds(self, pred, left, right):
        a = 0
        if left:
            a = self.n
            for i in range(self.cap - 1, -1, -1):
                a = z.ite_i(z.And(self.inlen(i), z.Not(pred(self.chars[i]))), i, a)
        b = self.n
        if right:
            b = a
            for i in range(self.cap):
                b = z.ite_i(z.And(self.inlen(i), z.ge(i, a), z.Not(pred(self.chars[i]))), i + 1, b)
        return a, b

    def _strip(self, chars, left, right):
        key = ("strip", chars if chars is None or isinstance(chars, str) else None, left, right)
        if key[1] is not None or chars is None:
            if self._memo is None:
                self._memo = {}
            r = self._memo.get(key)
            if r is None:
                r = self._memo[key] = self._strip_uncached(chars, left, right)
            return r
        return self._strip_uncached(chars, left, right)

    def _strip_uncached(self, chars, left, right):
        if chars is None:
            pred = isws
        else:
            cs = SymStr.lift(chars)
            if not cs.is_concrete():
                raise EngineUnsupported("strip(symbolic set)")
            codes = tuple(cs.chars[: cs.n])
            pred = lambda c: z.in_set_c(c, codes)
        a, b = self._strip_bounds(pred, left, right)
        return self.sub(core.try_concretize(a), core.try_concretize(b))

    def strip(self, chars=None):
        return self._strip(chars, True, True)

    def lstrip(self, chars=None):
        return self._strip(chars, True, False)

    def rstrip(self, chars=None):
        return self._strip(chars, False, True)

    def _memoized(self, key, fn):
        if self._memo is None:
            self._memo = {}
        r = self._memo.get(key)
        if r is None:
            r = self._memo[key] = fn()
        return r

    def upper(self):
        return self._memoized("upper", lambda: mkstr(SymStr([upper_c(c) for c in self.chars], self.n, self.maxlen)))

    def lower(self):
        return self._memoized("lower", lambda: mkstr(SymStr([lower_c(c) for c in self.chars], self.n, self.maxlen)))

    def ljust(self, w, fill=" "):
        padn = z.max_i(z.sub(I(w), self.n), 0)
        return concat([self, spaces(padn, fill)])

    def rjust(self, w, fill=" "):
        padn = z.max_i(z.sub(I(w), self.n), 0)
        return concat([spaces(padn, fill), self])

    def replace(self, old, new, count=-1):
        old = SymStr.lift(old)
        new = SymStr.lift(new)
        if count != -1 or not old.is_concrete() or not new.is_concrete() or old.n != 1:
            raise EngineUnsupported("replace() other than single concrete character")
        oc = old.chars[0]
        if new.n == 1:
            return mkstr(SymStr([z.ite_c(z.eq_c(c, oc), new.chars[0], c) for c in self.chars], self.n, self.maxlen))
        if new.n == 0:
            # delete every occurrence: stable compaction
            out = [0] * self.cap
            k = 0  # number kept so far
            for i in range(self.cap):
                keep = z.And(self.inlen(i), z.Not(z.eq_c(self.chars[i], oc)))
                for j in range(i + 1):
                    out[j] = z.ite_c(z.And(keep, z.eq_i(k, j)), self.chars[i], out[j])
                k = z.add(k, z.ite_i(keep, 1, 0))
            return mkstr(SymStr(out, k, self.maxlen))
        raise EngineUnsupported("replace() with a longer replacement")

    def split(self, sep=None, maxsplit=-1):
        if maxsplit != -1:
            raise EngineUnsupported("split with maxsplit")
        if sep is None:
            from . import symre
            return symre.findall(symre.compile_cached(r"\S+"), self)
        sep = SymStr.lift(sep)
        if not sep.is_concrete() or sep.n != 1:
            raise EngineUnsupported("split on a non single-character separator")
        sc = sep.chars[0]
        pieces = []
        start = 0
        # positions of separators, forking on their number (bounded by MAXPIECES)
        from .symre import MAXMATCH
        for it in range(MAXMATCH + 1):
            cand = [z.And(self.inlen(i), z.ge(i, start), z.eq_c(self.chars[i], sc)) for i in range(self.cap)]
            if not B_decide(z.Or(cand)):
                break
            if it == MAXMATCH:
                raise OutOfBound("more than %d separators" % MAXMATCH)
            pos = 0
            seen = False
            for i in range(self.cap):
                pos = z.ite_i(z.And(cand[i], z.Not(seen)), i, pos)
                seen = z.Or(seen, cand[i])
            pieces.append(self.sub(start, pos))
            start = z.add(pos, 1)
        pieces.append(self.sub(start, self.n))
        return pieces

    def splitlines(self):
        if self.is_concrete():
            return self.as_str().splitlines()
        # bound: a symbolic string holding a line break (other than a SymText) ends the path as out of bound
        nobreak = z.And([z.Or(z.ge(i, self.n), z.Not(z.in_set_c(self.chars[i], (10, 13, 11, 12, 28, 29, 30, 0x85)))) for i in range(self.cap)])
        if not B_decide(nobreak):
            raise core.OutOfBound("line break inside a symbolic string given to splitlines()")
        if B_decide(self.truth()):
            return [self]
        return []

    def join(self, items):
        items = list(items)
        parts = []
        for i, x in enumerate(items):
            if i:
                parts.append(self)
            parts.append(x)
        return concat(parts) if parts else ""

    def encode(self, *a, **k):
        raise EngineUnsupported("encode() on a symbolic string")

    def concretize(self, model):
        n = core.mval(model, self.n)
        return "".join(chr(core.mval(model, self.chars[i])) for i in range(n))


def B_decide(e):
    c = z._cb(e)
    if c is not None:
        return c
    return core.decide(e)


def mkstr(s):
    """collapse fully concrete SymStr into str"""
    if isinstance(s, SymStr) and not is_sym(s.n):
        if not any(is_sym(c) for c in s.chars[: s.n]):
            return "".join(chr(c) for c in s.chars[: s.n])
        if len(s.chars) != s.n:
            return SymStr(s.chars[: s.n], s.n)
    return s


def spaces(n, fill=" "):
    """fill * n for symbolic n (bounded by PADCAP)"""
    f = ord(fill)
    if not is_sym(n):
        return fill * max(0, n)
    n = z.simp(n)
    if not is_sym(n):
        return fill * max(0, n)
    n = core.try_concretize(n)
    if not is_sym(n):
        return fill * max(0, n)
    # paddings of symbolic length are bounded by PADCAP; longer ones end the path as out-of-bound (counted and
    # reported in the evidence - this used to be an assumption, which removed those inputs silently)
    if core.decide(z.le(n, PADCAP)):
        return SymStr([f] * PADCAP, z.max_i(n, 0), PADCAP)
    raise core.OutOfBound("symbolic padding longer than %d" % PADCAP)


def concat(parts):
    if all(isinstance(p, str) for p in parts):
        return "".join(parts)  # nothing symbolic: plain Python strings (any alphabet)
    parts = [SymStr.lift(p) for p in parts if not (isinstance(p, str) and p == "")]
    if not parts:
        return ""
    if len(parts) == 1:
        return mkstr(parts[0])
    total_cap = sum(p.cap for p in parts)
    total_max = sum(p.maxlen for p in parts)
    cap = min(total_cap, total_max)
    res = [0] * cap
    off = 0
    off_max = 0
    for p in parts:
        if not is_sym(off):
            o = off
            for i in range(min(p.cap, cap - o)):
                res[o + i] = p.chars[i] if not is_sym(p.n) and i < p.n else z.ite_c(p.inlen(i), p.chars[i], res[o + i])
        else:
            # symbolic offset: res[k] = p.chars[k - off] when off <= k < off + p.n
            for k in range(min(cap, off_max + p.cap)):
                c = res[k]
                for i in range(min(p.cap, k + 1)):
                    if k - i > off_max:
                        continue
                    c = z.ite_c(z.And(z.eq_i(off, k - i), p.inlen(i)), p.chars[i], c)
                res[k] = c
        off = z.add(off, p.n)
        off_max += p.maxlen
    if is_sym(off):
        off = z.simp(off)
    return mkstr(SymStr(res, off, total_max))


def concretize(v, model):
    """concrete Python value of a (possibly nested) symbolic value under a model"""
    if isinstance(v, SymStr):
        return v.concretize(model)
    if isinstance(v, SymInt):
        return core.mval(model, v.e)
    if isinstance(v, SymBool):
        return core.mval(model, v.e)
    if isinstance(v, z3.ExprRef):
        return core.mval(model, v)
    if isinstance(v, (list, tuple)):
        return [concretize(x, model) for x in v]
    if isinstance(v, dict):
        return {k: concretize(x, model) for k, x in v.items()}
    if hasattr(v, "concretize"):
        return v.concretize(model)
    return v
