"""Load the real lasio modules from /repo with a purely syntactic AST rewrite and shims.

Nothing is translated by hand: the source text of /repo/lasio/*.py is parsed, calls /
subscripts / `%` / `in` are routed through helpers that fall back to the native operation
whenever no operand is symbolic, `logger.<level>(...)` statements are dropped, and bare
`except:` becomes `except Exception:` (the engine's control-flow exceptions derive from
BaseException and must not be swallowed).
"""
import ast
import builtins
import hashlib
import os
import re as _re
import sys
import types

import numpy as _np

from . import core, symre, z
from .core import EngineUnsupported
from .values import SymBool, SymInt, SymStr, B, I, mkbool, mkint, mkstr, concat, B_decide

REPO = os.environ.get("LASIO_REPO", "/repo")
SYM = (SymStr, SymInt, SymBool)


def is_symv(x):
    return isinstance(x, SYM)


# ------------------------------------------------------------------------ helpers (runtime)
class SymKey(object):
    """dict key wrapper for symbolic strings (identity hash)"""

    def __init__(self, s):
        self.s = s

    def __hash__(self):
        return id(self)

    def __eq__(self, o):
        return self is o

    def __repr__(self):
        return "<SymKey>"


def _keys_eq(k, kk):
    if isinstance(kk, SymKey):
        kk = kk.s
    if isinstance(kk, (str, SymStr)) and isinstance(k, (str, SymStr)):
        return k == kk
    return False


def _dict_lookup(d, k):
    """(found, value) with symbolic equality tests against every key, in insertion order"""
    for kk in list(d.keys()):
        if _keys_eq(k, kk):
            return True, d[kk]
    return False, None


def _has_symkey(d):
    return any(isinstance(kk, SymKey) for kk in d.keys())


def _conc_tuple_key(k):
    """a tuple used as a dict key: symbolic booleans / integers / forced strings inside are concretised (forking)"""
    if type(k) is tuple and any(is_symv(e) for e in k):
        out = []
        for e in k:
            if isinstance(e, SymBool):
                out.append(bool(e))
            elif isinstance(e, SymInt):
                out.append(e.__index__())
            elif isinstance(e, SymStr):
                if not e.is_concrete():
                    raise core.EngineUnsupported("symbolic string inside a tuple dict key")
                out.append(str(mkstr(e)))
            else:
                out.append(e)
        return tuple(out)
    return k


def symget(o, k):
    if type(k) is tuple and isinstance(o, dict):
        k = _conc_tuple_key(k)
    if isinstance(k, SymStr):
        if type(o) in DICTS or isinstance(o, dict) and type(o).__getitem__ is dict.__getitem__:
            f, v = _dict_lookup(o, k)
            if f:
                return v
            raise KeyError("<symbolic key>")
        if isinstance(o, str):
            raise TypeError("string indices must be integers")
    elif isinstance(k, str) and type(o) in DICTS and _has_symkey(o):
        f, v = _dict_lookup(o, k)
        if f:
            return v
        raise KeyError(k)
    if isinstance(k, SymInt):
        if isinstance(o, str):
            return SymStr.lift(o)[k]
        if isinstance(o, (list, tuple)) and not hasattr(type(o), "mnemonic_compare"):
            n = len(o)
            if n == 0:
                raise IndexError("list index out of range")
            ok = z.And(z.lt(k.e, n), z.ge(k.e, -n))
            if not B_decide(ok):
                raise IndexError("list index out of range")
            return o[k.concretize_in(-n, n - 1)]
    if isinstance(k, slice) and isinstance(o, str) and any(isinstance(x, SymInt) for x in (k.start, k.stop)):
        return SymStr.lift(o)[k]
    return o[k]


def symset(o, k, v):
    if type(k) is tuple and isinstance(o, dict):
        k = _conc_tuple_key(k)
    if type(o) in DICTS:
        if isinstance(k, SymStr):
            for kk in list(o.keys()):
                if _keys_eq(k, kk):
                    o[kk] = v
                    return
            o[SymKey(k)] = v
            return
        if isinstance(k, str) and _has_symkey(o):
            for kk in list(o.keys()):
                if _keys_eq(k, kk):
                    o[kk] = v
                    return
    o[k] = v


def symdict(pairs=(), **kw):
    """dict(...) whose keys may be symbolic strings (later equal keys override earlier ones)"""
    if isinstance(pairs, dict):
        pairs = list(pairs.items())
    pairs = list(pairs)
    if not any(isinstance(k, SymStr) for k, _ in pairs):
        d = dict(pairs)
        d.update(kw)
        return d
    d = {}
    for k, v in pairs:
        symset(d, k, v)
    d.update(kw)
    return d


def symdel(o, k):
    if type(o) in DICTS and isinstance(k, SymStr):
        for kk in list(o.keys()):
            if _keys_eq(k, kk):
                del o[kk]
                return
        raise KeyError("<symbolic key>")
    del o[k]


def symin(x, container, negate=False):
    r = _symin(x, container)
    if negate:
        return mkbool(z.Not(B(r))) if isinstance(r, SymBool) else (not r)
    return r


def _symin(x, c):
    if isinstance(c, SymStr):
        return c.contains(x)
    if isinstance(c, str):
        if isinstance(x, SymStr):
            return SymStr.lift(c).contains(x) if x.is_concrete() else _sym_in_str(x, c)
        return x in c
    if type(c) in DICTS or isinstance(c, (set, frozenset, type({}.keys()))):
        x = _conc_tuple_key(x)
        if isinstance(x, SymStr) or (type(c) in DICTS and _has_symkey(c)):
            keys = list(c.keys()) if hasattr(c, "keys") else list(c)
            return mkbool(z.Or([B(_keys_eq(x, kk)) for kk in keys]))
        if is_symv(x):
            return mkbool(z.Or([B(x == kk) for kk in c]))
        return x in c
    if type(c) in (list, tuple):
        if is_symv(x) or any(is_symv(e) for e in c):
            return mkbool(z.Or([B(x == e) if not (e is x) else True for e in c]))
        return x in c
    return x in c  # objects with their own __contains__ (SectionItems, ...) run natively


def _sym_in_str(x, c):
    """symbolic needle in concrete haystack: disjunction over substrings"""
    subs = {c[i:j] for i in range(len(c) + 1) for j in range(i, len(c) + 1)}
    return mkbool(z.Or([x.eq_expr(t) for t in sorted(subs) if len(t) <= x.cap]))


DICTS = (dict,)
try:
    from collections import OrderedDict as _OD

    DICTS = (dict, _OD)
except Exception:  # pragma: no cover
    pass


def symformat(fmt, args, kwargs):
    """'..{}..'.format(...) with symbolic arguments: only plain {} / {n} / {name} fields"""
    import string

    out = []
    auto = 0
    for lit, field, spec, conv in string.Formatter().parse(fmt):
        if lit:
            out.append(lit)
        if field is None:
            continue
        if field == "":
            v = args[auto]
            auto += 1
        elif field.isdigit():
            v = args[int(field)]
        else:
            v = kwargs[field]
        if isinstance(v, SymStr):
            if spec not in ("", "s") or conv not in (None, "s"):
                raise EngineUnsupported("format spec on a symbolic string")
            out.append(v)
        elif isinstance(v, SymInt):
            out.append(int_to_str(v))
        elif isinstance(v, (list, tuple, dict)) and _contains_sym(v):
            out.append("<container with symbolic content>")
        else:
            out.append(("{" + (":" + spec if spec else "") + "}").format(v) if conv is None else ("{!" + conv + "}").format(v))
    return concat(out)


def _contains_sym(v):
    if is_symv(v):
        return True
    if isinstance(v, dict):
        return any(_contains_sym(x) for x in v.values()) or any(isinstance(k, SymKey) for k in v)
    if isinstance(v, (list, tuple)):
        return any(_contains_sym(x) for x in v)
    return False


def int_to_str(v):
    """str() of a SymInt: forks over its (small) range"""
    if v.rng is None:
        raise EngineUnsupported("str() of an unbounded symbolic int")
    return builtins.str(v.concretize_in(v.rng[0], v.rng[1]))


def symmod(a, b):
    if isinstance(a, str) and _contains_sym(b if isinstance(b, tuple) else (b,)):
        args = list(b) if isinstance(b, tuple) else [b]
        pieces = _re.split(r"(%[sd])", a)
        out = []
        ai = 0
        for p in pieces:
            if p in ("%s", "%d"):
                v = args[ai]
                ai += 1
                if isinstance(v, SymStr):
                    out.append(v)
                elif isinstance(v, SymInt):
                    out.append(int_to_str(v))
                elif _contains_sym(v):
                    out.append("<container with symbolic content>")
                else:
                    out.append(p % (v,))
            else:
                if "%" in p.replace("%%", ""):
                    raise EngineUnsupported("format %r with symbolic arguments" % a)
                out.append(p.replace("%%", "%"))
        return concat(out)
    if isinstance(a, SymInt) or isinstance(b, SymInt):
        raise EngineUnsupported("modulo on symbolic ints")
    return a % b


def symcall(f, *a, **k):
    tc = _TYPE_CALLS.get(f) if isinstance(f, type) else None
    if tc is not None:
        return tc(*a, **k)
    if f is dict and a and not isinstance(a[0], dict):
        return symdict(list(a[0]), **k)
    selfobj = getattr(f, "__self__", None)
    if selfobj is not None and not isinstance(selfobj, types.ModuleType):
        name = getattr(f, "__name__", None)
        ts = type(selfobj)
        if ts is str:
            if name == "join":
                if isinstance(a[0], SymStr):
                    if selfobj == "":
                        return a[0]  # ''.join(s) of a string is the string itself
                    raise EngineUnsupported("separator.join(symbolic string)")
                items = list(a[0])
                if any(isinstance(x, SymStr) for x in items):
                    if selfobj == "\n":
                        from .stubs import SymText

                        return SymText(items)
                    return SymStr.lift(selfobj).join(items)
                return f(items)
            if name == "format":
                if _contains_sym(a) or _contains_sym(tuple(k.values())):
                    return symformat(selfobj, a, k)
            elif a and _contains_sym(a):
                # concrete string, symbolic argument (startswith, find, ljust, strip, ...)
                return getattr(SymStr.lift(selfobj), name)(*a, **k)
        elif ts in DICTS:
            if name in ("get", "pop", "setdefault") and a and (isinstance(a[0], SymStr) or (isinstance(a[0], str) and _has_symkey(selfobj))):
                found, v = _dict_lookup(selfobj, a[0])
                if name == "get":
                    return v if found else (a[1] if len(a) > 1 else None)
                raise EngineUnsupported("dict.%s with a symbolic key" % name)
        elif ts is _re.Pattern:
            if a and isinstance(a[0], SymStr):
                if name in ("match", "search", "findall", "fullmatch", "split", "finditer"):
                    return getattr(symre, name)(selfobj, *a, **k)
                if name == "sub":
                    return symre.sub(selfobj, a[0], a[1], *a[2:], **k)
            elif name == "sub" and len(a) > 1 and isinstance(a[1], SymStr):
                return symre.sub(selfobj, a[0], a[1], *a[2:], **k)
        elif ts is list or ts is tuple:
            if name == "index" and (is_symv(a[0]) or _contains_sym(selfobj)):
                for i, e in enumerate(selfobj):
                    if e is a[0] or e == a[0]:
                        return i
                raise ValueError("<symbolic> is not in list")
            if name in ("insert", "pop") and a and isinstance(a[0], SymInt):
                n = len(selfobj)
                if name == "insert":
                    # list.insert clamps: every value <= -n acts as 0, every value >= n as n
                    kk = z.ite_i(z.lt(a[0].e, -n), -n, z.ite_i(z.gt(a[0].e, n), n, a[0].e))
                    return f(SymInt(kk).concretize_in(-n, n), *a[1:])
                ok = z.And(z.lt(a[0].e, n), z.ge(a[0].e, -n))
                if n == 0 or not B_decide(ok):
                    raise IndexError("pop index out of range")
                return f(a[0].concretize_in(-n, n - 1))
            if name == "count" and (is_symv(a[0]) or _contains_sym(selfobj)):
                total = 0
                for e in selfobj:
                    r = True if e is a[0] else (e == a[0])
                    total = z.add(total, z.ite_i(B(r), 1, 0))
                return mkint(total, (0, len(selfobj)))
        if isinstance(selfobj, list) and name in ("__getitem__", "__delitem__", "pop") and a and isinstance(a[0], SymInt):
            n = builtins.len(selfobj)
            ok = z.And(z.lt(a[0].e, n), z.ge(a[0].e, -n))
            if n == 0 or not B_decide(ok):
                raise IndexError("list index out of range")
            return f(a[0].concretize_in(-n, n - 1))
    return f(*a, **k)


# ------------------------------------------------------------------------ builtins overrides
def _unshim(t):
    if t is b_str:
        return str
    if t is b_int:
        return int
    if t is b_float:
        return float
    if t is b_bool:
        return bool
    if isinstance(t, tuple):
        return tuple(_unshim(u) for u in t)
    return t


def b_isinstance(x, t):
    t = _unshim(t)
    ts = t if isinstance(t, tuple) else (t,)
    if isinstance(x, SymStr) or getattr(x, "__symstr_like__", False):
        return str in ts or object in ts
    if isinstance(x, SymInt):
        return int in ts or object in ts
    if isinstance(x, SymBool):
        return bool in ts or int in ts or object in ts
    return builtins.isinstance(x, t)


def b_len(x):
    if isinstance(x, SymStr):
        return x.length()
    return builtins.len(x)


class _Meta(type):
    def __instancecheck__(cls, x):
        return b_isinstance(x, cls._real)


def b_str(x="", *a):
    if isinstance(x, SymStr):
        return x
    if isinstance(x, SymInt):
        return int_to_str(x)
    if isinstance(x, SymBool):
        return "True" if bool(x) else "False"
    if hasattr(x, "__symstr__"):
        return x.__symstr__()
    if isinstance(x, (list, tuple, dict)) and _contains_sym(x):
        return "<container with symbolic content>"
    return builtins.str(x, *a)


def b_int(x=0, *a):
    if isinstance(x, SymInt):
        return x
    if isinstance(x, SymBool):
        return mkint(z.ite_i(x.e, 1, 0), (0, 1))
    if isinstance(x, SymStr):
        from . import symnum

        return symnum.py_int(x)
    return builtins.int(x, *a)


def b_float(x=0.0):
    if isinstance(x, SymStr):
        from . import symnum

        return symnum.py_float(x)
    if hasattr(x, "__symfloat__"):
        return x.__symfloat__()
    return builtins.float(x)


def b_bool(x=False):
    if isinstance(x, SymBool):
        return x
    if isinstance(x, (SymInt, SymStr)):
        return mkbool(x.truth())
    return builtins.bool(x)


def _minmax(fn, zf):
    def g(*a, **k):
        xs = list(a[0]) if len(a) == 1 else list(a)
        if any(isinstance(x, SymInt) for x in xs) and "key" not in k:
            r = I(xs[0])
            lo = [x.rng if isinstance(x, SymInt) else (x, x) for x in xs]
            for x in xs[1:]:
                r = zf(r, I(x))
            rng = None
            if all(q is not None for q in lo):
                rng = (fn(q[0] for q in lo), fn(q[1] for q in lo))
            return mkint(r, rng)
        if len(a) == 1:
            return fn(xs, **k)
        return fn(*a, **k)

    return g


b_max = _minmax(builtins.max, z.max_i)
b_min = _minmax(builtins.min, z.min_i)


def b_any(xs):
    xs = list(xs)
    if any(isinstance(x, SymBool) for x in xs):
        return mkbool(z.Or([B(x) for x in xs]))
    return builtins.any(xs)


def b_all(xs):
    xs = list(xs)
    if any(isinstance(x, SymBool) for x in xs):
        return mkbool(z.And([B(x) for x in xs]))
    return builtins.all(xs)


def b_sum(xs, start=0):
    r = start
    for x in xs:
        r = r + x
    return r


def b_range(*a):
    if any(isinstance(x, SymInt) for x in a):
        a = [x.__index__() if isinstance(x, SymInt) else x for x in a]
    return builtins.range(*a)


def b_set(xs=()):
    xs = list(xs)
    if any(is_symv(x) for x in xs):
        return SymSet(xs)
    return builtins.set(xs)


class SymSet(object):
    """set of values with symbolic members: deduplicated by forking equality tests"""

    def __init__(self, xs):
        self.items = []
        for x in xs:
            if not any(bool(x == y) if type(x) is type(y) or is_symv(x) or is_symv(y) else False for y in self.items):
                self.items.append(x)

    def __len__(self):
        return len(self.items)

    def __iter__(self):
        return iter(self.items)

    def __contains__(self, x):
        return any(bool(x == y) for y in self.items)


def b_hasattr(o, name):
    return builtins.hasattr(o, name)


def b_sorted(xs, **k):
    xs = list(xs)
    if any(is_symv(x) for x in xs):
        raise EngineUnsupported("sorted() over symbolic values")
    return builtins.sorted(xs, **k)


_TYPE_CALLS = {str: b_str, int: b_int, float: b_float, bool: b_bool}


# ------------------------------------------------------------------------ shims for modules
class NoLog(object):
    def __getattr__(self, k):
        return lambda *a, **kw: None


class LoggingShim(object):
    DEBUG = 10

    @staticmethod
    def getLogger(*a):
        return NoLog()

    def __getattr__(self, k):
        import logging

        return getattr(logging, k)


class FunctoolsShim(object):
    """functools with an lru_cache that also accepts symbolic (unhashable) arguments: proxies
    are keyed by identity, so a cached *mutable* result is shared exactly as with the real
    lru_cache whenever the same argument object comes again"""

    def __getattr__(self, k):
        import functools

        return getattr(functools, k)

    @staticmethod
    def lru_cache(maxsize=128, typed=False):
        def deco(fn):
            cache = {}

            def key_of(a, k):
                def one(x):
                    try:
                        hash(x)
                        return x
                    except TypeError:
                        return ("id", id(x))
                return (tuple(one(x) for x in a), tuple(sorted((n, one(v)) for n, v in k.items())))

            def wrapper(*a, **k):
                kk = key_of(a, k)
                if kk not in cache:
                    cache[kk] = (fn(*a, **k), a, k)
                return cache[kk][0]

            wrapper.cache_clear = cache.clear
            wrapper.__wrapped__ = fn
            return wrapper

        if callable(maxsize):  # used as @lru_cache without parentheses
            f, maxsize = maxsize, 128
            return deco(f)
        return deco

    cache = lru_cache.__func__(None) if False else None


class ReShim(object):
    IGNORECASE = _re.IGNORECASE
    I = _re.I
    ASCII = _re.ASCII
    A = _re.A
    DOTALL = _re.DOTALL
    MULTILINE = _re.MULTILINE
    Pattern = _re.Pattern
    compile = staticmethod(_re.compile)
    escape = staticmethod(_re.escape)
    match = staticmethod(symre.match)
    search = staticmethod(symre.search)
    fullmatch = staticmethod(symre.fullmatch)
    findall = staticmethod(symre.findall)
    sub = staticmethod(symre.sub)
    split = staticmethod(symre.split)


# ------------------------------------------------------------------------ AST rewrite
def _name(n):
    return ast.Name(id=n, ctx=ast.Load())


class Rewriter(ast.NodeTransformer):
    def visit_Call(self, node):
        self.generic_visit(node)
        # super() must stay a plain call (zero-argument form needs the __class__ cell)
        if isinstance(node.func, ast.Name) and node.func.id in ("super", "locals", "globals", "vars"):
            return node
        if any(isinstance(a, ast.Starred) for a in node.args) or any(kw.arg is None for kw in node.keywords):
            return ast.copy_location(ast.Call(func=_name("__symcall__"), args=[node.func] + node.args, keywords=node.keywords), node)
        return ast.copy_location(ast.Call(func=_name("__symcall__"), args=[node.func] + node.args, keywords=node.keywords), node)

    def visit_Expr(self, node):
        v = node.value
        if (
            isinstance(v, ast.Call)
            and isinstance(v.func, ast.Attribute)
            and isinstance(v.func.value, ast.Name)
            and v.func.value.id == "logger"
        ):
            return ast.copy_location(ast.Pass(), node)
        return self.generic_visit(node)

    def visit_ExceptHandler(self, node):
        self.generic_visit(node)
        if node.type is None:
            node.type = _name("Exception")
        return node

    def visit_BinOp(self, node):
        self.generic_visit(node)
        if isinstance(node.op, ast.Mod):
            return ast.copy_location(ast.Call(func=_name("__symmod__"), args=[node.left, node.right], keywords=[]), node)
        return node

    def visit_Compare(self, node):
        self.generic_visit(node)
        if len(node.ops) == 1 and isinstance(node.ops[0], (ast.In, ast.NotIn)):
            neg = ast.Constant(value=isinstance(node.ops[0], ast.NotIn))
            return ast.copy_location(
                ast.Call(func=_name("__symin__"), args=[node.left, node.comparators[0], neg], keywords=[]), node
            )
        return node

    def visit_Subscript(self, node):
        self.generic_visit(node)
        if isinstance(node.ctx, ast.Load):
            return ast.copy_location(ast.Call(func=_name("__symget__"), args=[node.value, node.slice], keywords=[]), node)
        return node

    def visit_Assign(self, node):
        if len(node.targets) == 1 and isinstance(node.targets[0], ast.Subscript):
            t = node.targets[0]
            val = self.visit(node.value)
            obj = self.visit(t.value)
            key = self.visit(t.slice)
            return ast.copy_location(
                ast.Expr(ast.Call(func=_name("__symset__"), args=[obj, key, val], keywords=[])), node
            )
        return self.generic_visit(node)

    def visit_Delete(self, node):
        if len(node.targets) == 1 and isinstance(node.targets[0], ast.Subscript):
            t = node.targets[0]
            obj = self.visit(t.value)
            key = self.visit(t.slice)
            return ast.copy_location(ast.Expr(ast.Call(func=_name("__symdel__"), args=[obj, key], keywords=[])), node)
        return self.generic_visit(node)

    def visit_SetComp(self, node):
        self.generic_visit(node)
        lc = ast.ListComp(elt=node.elt, generators=node.generators)
        return ast.copy_location(ast.Call(func=_name("__symsetof__"), args=[lc], keywords=[]), node)

    def visit_Set(self, node):
        self.generic_visit(node)
        return ast.copy_location(ast.Call(func=_name("__symsetof__"), args=[ast.List(elts=node.elts, ctx=ast.Load())], keywords=[]), node)

    def visit_DictComp(self, node):
        self.generic_visit(node)
        lc = ast.ListComp(elt=ast.Tuple(elts=[node.key, node.value], ctx=ast.Load()), generators=node.generators)
        return ast.copy_location(ast.Call(func=_name("__symdictof__"), args=[lc], keywords=[]), node)

    def visit_JoinedStr(self, node):
        # f-strings only occur in logging arguments in lasio; keep but never with symbolic values
        return self.generic_visit(node)


MODULES = ("las_items", "defaults", "exceptions", "reader", "writer", "las", "excel")


class Loaded(object):
    pass


def source_digest(path):
    return hashlib.sha1(open(path, "rb").read()).hexdigest()


def load_module(modname, path, shims, pkg_modules):
    src = open(path).read()
    tree = Rewriter().visit(ast.parse(src, path))
    ast.fix_missing_locations(tree)
    mod = types.ModuleType(modname)
    mod.__file__ = path
    mod.__package__ = "lasio_sym"
    bi = dict(builtins.__dict__)
    bi.update(
        len=b_len,
        isinstance=b_isinstance,
        max=b_max,
        min=b_min,
        any=b_any,
        all=b_all,
        sum=b_sum,
        range=b_range,
        set=b_set,
        sorted=b_sorted,
    )
    real_import = builtins.__import__

    def imp(name, globals=None, locals=None, fromlist=(), level=0):
        if level > 0:
            # relative import inside lasio -> our instrumented siblings
            if not name:
                m = types.SimpleNamespace()
                for f in fromlist or ():
                    setattr(m, f, pkg_modules[f])
                return m
            return pkg_modules[name.split(".")[0]]
        if name in shims:
            return shims[name]
        return real_import(name, globals, locals, fromlist, level)

    bi["__import__"] = imp
    if "open" in shims:
        bi["open"] = shims["open"]
    mod.__dict__.update(
        __builtins__=bi,
        __symcall__=symcall,
        __symget__=symget,
        __symset__=symset,
        __symdel__=symdel,
        __symmod__=symmod,
        __symin__=symin,
        __symsetof__=b_set,
        __symdictof__=symdict,
    )
    # importable by name (the pure-Python pickler looks classes up through sys.modules)
    pkg = sys.modules.get("lasio_sym")
    if pkg is None:
        pkg = sys.modules["lasio_sym"] = types.ModuleType("lasio_sym")
        pkg.__path__ = []
    sys.modules[modname] = mod
    setattr(pkg, modname.split(".")[-1], mod)
    exec(compile(tree, path, "exec"), mod.__dict__)
    return mod


def load_lasio(extra_shims=None, repo=None):
    """fresh instrumented copies of lasio's modules, read from the working tree"""
    from . import symnp

    repo = repo or REPO
    shims = {"re": ReShim, "logging": LoggingShim(), "numpy": symnp.NP, "functools": FunctoolsShim()}
    if extra_shims:
        shims.update(extra_shims)
    pkg = {}
    ns = Loaded()
    ns.digests = {}
    for m in MODULES:
        path = os.path.join(repo, "lasio", m + ".py")
        if m == "excel":
            try:
                import openpyxl  # noqa: F401
            except Exception:
                continue
        pkg[m] = load_module("lasio_sym." + m, path, shims, pkg)
        ns.digests["lasio/%s.py" % m] = source_digest(path)
        setattr(ns, m, pkg[m])
    ns.items = ns.las_items
    ns.shims = shims
    ns.state0 = _snapshot_state(pkg)
    core.PATH_HOOKS[:] = [lambda: _restore_state(ns.state0)]
    return ns


def _mutable_holders(pkg):
    """(owner dict, name, container) for every module-level and class-level dict/list/set of the loaded modules"""
    out = []
    for mod in pkg.values():
        for name, val in list(vars(mod).items()):
            if name.startswith("__"):
                continue
            if type(val) in (dict, list, set):
                out.append((name, val))
            elif isinstance(val, type) and getattr(val, "__module__", "").startswith("lasio_sym"):
                for an, av in list(vars(val).items()):
                    if not an.startswith("__") and type(av) in (dict, list, set):
                        out.append(("%s.%s" % (name, an), av))
    return out


def _snapshot_state(pkg):
    """state that the library keeps between calls (module-level and class-level containers, e.g. caches): restored
    before every explored path, so that re-executions are deterministic and a path sees only what it did itself"""
    import copy

    return [(val, copy.copy(val)) for _, val in _mutable_holders(pkg)]


def _restore_state(state):
    for live, saved in state:
        if type(live) is list:
            live[:] = saved
        else:
            live.clear()
            live.update(saved)
