"""Bounded, exact encoding of Python `re` matching over SymStr.

The pattern object lasio built is parsed with CPython's own `re._parser`; single-character
atoms are turned into 256-entry truth tables by asking the real `re` (so classes,
categories and IGNORECASE are exactly CPython's on the Latin-1 alphabet).  Matching is
encoded in two passes (see DESIGN.md §2.3): existence vectors right-to-left, then a
prioritised forward pass that takes, at every choice point, the first alternative in
backtracking priority order whose continuation can still succeed.
"""
import re as _re
import re._parser as sp
import re._compiler as _cc
import re._constants as sc
import z3
from . import z, core
from .z import is_sym
from .values import SymStr, mkstr, mkint, mkbool, B_decide, concat
from .core import EngineUnsupported, OutOfBound

MAXMATCH = 6  # bound on matches per findall/sub/split on one symbolic string


# ------------------------------------------------------------------ parsing / atom tables
_parse_cache = {}


def compile_cached(pattern, flags=0):
    if isinstance(pattern, _re.Pattern):
        return pattern
    k = (pattern, flags)
    if k not in _parse_cache:
        _parse_cache[k] = _re.compile(pattern, flags)
    return _parse_cache[k]


_tree_cache = {}


def parse(pat):
    pat = compile_cached(pat)
    k = (pat.pattern, pat.flags)
    if k not in _tree_cache:
        t = sp.parse(pat.pattern, pat.flags)
        _tree_cache[k] = t
    return _tree_cache[k]


_table_cache = {}
ATOMS = (sc.LITERAL, sc.NOT_LITERAL, sc.ANY, sc.IN)


def atom_table(op, av, flags):
    k = (str(op), repr(av), int(flags))
    t = _table_cache.get(k)
    if t is None:
        st = sp.State()
        st.flags = flags
        st.str = ""
        p = sp.SubPattern(st, [(op, av)])
        pat = _cc.compile(p, flags)
        t = [bool(pat.fullmatch(chr(c))) for c in range(256)]
        # compress to ranges
        rngs = []
        c = 0
        while c < 256:
            if t[c]:
                d = c
                while d + 1 < 256 and t[d + 1]:
                    d += 1
                rngs.append((c, d))
                c = d + 1
            else:
                c += 1
        neg = []
        c = 0
        while c < 256:
            if not t[c]:
                d = c
                while d + 1 < 256 and not t[d + 1]:
                    d += 1
                neg.append((c, d))
                c = d + 1
            else:
                c += 1
        t = (t, rngs, neg)
        _table_cache[k] = t
    return t


def atom_pred(op, av, flags):
    tbl, rngs, neg = atom_table(op, av, flags)

    def pred(c):
        if not is_sym(c):
            return tbl[c]
        if len(neg) < len(rngs):
            return z.Not(z.Or([z.eq_c(c, a) if a == b else z.in_range_c(c, a, b) for a, b in neg]))
        return z.Or([z.eq_c(c, a) if a == b else z.in_range_c(c, a, b) for a, b in rngs])

    return pred


def _minwidth(seq):
    try:
        return sp.SubPattern(sp.State(), list(seq)).getwidth()[0]
    except Exception:
        return 0


# ------------------------------------------------------------------ matcher
class Matcher(object):
    def __init__(self, s, flags):
        self.s = s
        self.N = s.cap
        self.flags = flags
        self.depth = 0  # > 0 inside optional / branch / repeat constructs
        self._pc = {}

    def inlen(self, i):
        return self.s.inlen(i)

    def charpred(self, op, av):
        """vector over positions 0..N-1: char i is in the string and satisfies the atom"""
        k = (str(op), repr(av))
        v = self._pc.get(k)
        if v is None:
            p = atom_pred(op, av, self.flags)
            v = [z.And(self.inlen(i), p(self.s.chars[i])) for i in range(self.N)]
            self._pc[k] = v
        return v

    # -------- desugaring of general repeats
    def desugar(self, op, av):
        lo, hi, sub = av
        sub = list(sub)
        greedy = op is sc.MAX_REPEAT
        if _minwidth(sub) == 0:
            raise EngineUnsupported("repeat of a possibly empty sub-pattern")
        top = min(hi, self.N) if hi != sc.MAXREPEAT else self.N
        if top < lo:
            top = lo
        seq = []
        for _ in range(lo):
            seq.extend(sub)
        nest = None
        for _ in range(top - lo):
            inner = list(sub) + ([nest] if nest is not None else [])
            nest = (op, (0, 1, inner))
        if nest is not None:
            seq.append(nest)
        return seq

    # -------- existence vectors
    def exist(self, seq, K):
        V = K
        for op, av in reversed(list(seq)):
            V = self.exist1(op, av, V)
        return V

    def lookvec(self, av):
        direction, sub = av
        N = self.N
        if direction == 1:
            return self.exist(sub, [True] * (N + 1))
        lo, hi = sub.getwidth()
        if lo != hi:
            raise EngineUnsupported("variable-width look-behind")
        w = lo
        out = []
        for i in range(N + 1):
            if i - w < 0:
                out.append(False)
                continue
            K = [j == i for j in range(N + 1)]
            out.append(z.And(self.exist(sub, K)[i - w], z.le(i, self.s.n)))
        return out

    def exist1(self, op, av, K):
        N = self.N
        if op in ATOMS:
            cp = self.charpred(op, av)
            return [z.And(cp[i], K[i + 1]) if i < N else False for i in range(N + 1)]
        if op is sc.SUBPATTERN:
            return self.exist(av[3], K)
        if op in (sc.MAX_REPEAT, sc.MIN_REPEAT):
            lo, hi, sub = av
            sub = list(sub)
            if len(sub) == 1 and sub[0][0] in ATOMS and (hi == sc.MAXREPEAT or hi >= N):
                cp = self.charpred(*sub[0])
                V = [None] * (N + 1)
                V[N] = K[N]
                for i in range(N - 1, -1, -1):
                    V[i] = z.Or(K[i], z.And(cp[i], V[i + 1]))
                for _ in range(lo):
                    V = [z.And(cp[i], V[i + 1]) if i < N else False for i in range(N + 1)]
                return V
            if lo == 0 and hi == 1:
                A = self.exist(sub, K)
                return [z.Or(A[i], K[i]) for i in range(N + 1)]
            return self.exist(self.desugar(op, av), K)
        if op is sc.BRANCH:
            Vs = [self.exist(b, K) for b in av[1]]
            return [z.Or([v[i] for v in Vs]) for i in range(N + 1)]
        if op is sc.ASSERT:
            L = self.lookvec(av)
            return [z.And(L[i], K[i]) for i in range(N + 1)]
        if op is sc.ASSERT_NOT:
            L = self.lookvec(av)
            return [z.And(z.Not(L[i]), K[i]) for i in range(N + 1)]
        if op is sc.AT:
            if av in (sc.AT_BEGINNING, sc.AT_BEGINNING_STRING):
                return [K[0]] + [False] * N
            if av is sc.AT_END:
                out = []
                for i in range(N + 1):
                    e = z.eq_i(self.s.n, i)
                    if i < N:
                        e = z.Or(e, z.And(z.eq_i(self.s.n, i + 1), z.eq_c(self.s.chars[i], 10)))
                    out.append(z.And(K[i], e))
                return out
            if av is sc.AT_END_STRING:
                return [z.And(K[i], z.eq_i(self.s.n, i)) for i in range(N + 1)]
        raise EngineUnsupported("regex construct %s" % (op,))

    # -------- prioritised forward pass
    def fwd(self, seq, P, K, groups):
        seq = list(seq)
        Ks = [None] * (len(seq) + 1)
        Ks[len(seq)] = K
        for k in range(len(seq) - 1, -1, -1):
            Ks[k] = self.exist1(seq[k][0], seq[k][1], Ks[k + 1])
        for k, (op, av) in enumerate(seq):
            P = self.fwd1(op, av, P, Ks[k + 1], groups)
        return P

    def set_group(self, groups, gid, P, Pend):
        anyp = z.Or(P)
        always = self.depth == 0
        old = groups.get(gid)
        if old is None:
            groups[gid] = (P, Pend, anyp, always)
        else:
            oP, oE, oany, oalw = old
            nP = [z.Or(P[i], z.And(z.Not(anyp), oP[i])) for i in range(len(P))]
            nE = [z.Or(Pend[i], z.And(z.Not(anyp), oE[i])) for i in range(len(P))]
            groups[gid] = (nP, nE, z.Or(anyp, oany), always or oalw)

    def fwd1(self, op, av, P, K, groups):
        N = self.N
        if op in ATOMS:
            return [False] + [P[i] for i in range(N)]
        if op in (sc.ASSERT, sc.ASSERT_NOT, sc.AT):
            return P
        if op is sc.SUBPATTERN:
            Pend = self.fwd(av[3], P, K, groups)
            if av[0] is not None:
                self.set_group(groups, av[0], P, Pend)
            return Pend
        if op in (sc.MAX_REPEAT, sc.MIN_REPEAT):
            lo, hi, sub = av
            sub = list(sub)
            greedy = op is sc.MAX_REPEAT
            if len(sub) == 1 and sub[0][0] in ATOMS and (hi == sc.MAXREPEAT or hi >= N):
                cp = self.charpred(*sub[0])
                outs = [[] for _ in range(N + 1)]
                for i in range(N + 1):
                    if z._cb(P[i]) is False:
                        continue
                    run = True
                    cands = []
                    for j in range(i, N + 1):
                        if j > i:
                            run = z.And(run, cp[j - 1])
                            if z._cb(run) is False:
                                break
                        cands.append((j, z.And(run, K[j]) if j - i >= lo else False))
                    order = list(reversed(cands)) if greedy else cands
                    better = False
                    for j, ok in order:
                        outs[j].append(z.And(P[i], ok, z.Not(better)))
                        better = z.Or(better, ok)
                return [z.Or(o) if o else False for o in outs]
            if lo == 0 and hi == 1:
                self.depth += 1
                A = self.exist(sub, K)
                if greedy:
                    take = [z.And(P[i], A[i]) for i in range(N + 1)]
                else:
                    take = [z.And(P[i], A[i], z.Not(K[i])) for i in range(N + 1)]
                skip = [z.And(P[i], z.Not(take[i])) for i in range(N + 1)]
                Pend = self.fwd(sub, take, K, groups)
                self.depth -= 1
                return [z.Or(Pend[i], skip[i]) for i in range(N + 1)]
            self.depth += 1
            r = self.fwd(self.desugar(op, av), P, K, groups)
            self.depth -= 1
            return r
        if op is sc.BRANCH:
            self.depth += 1
            Vs = [self.exist(b, K) for b in av[1]]
            out = [False] * (N + 1)
            prior = [False] * (N + 1)
            for b, V in zip(av[1], Vs):
                Pb = [z.And(P[i], V[i], z.Not(prior[i])) for i in range(N + 1)]
                Pe = self.fwd(b, Pb, K, groups)
                out = [z.Or(out[i], Pe[i]) for i in range(N + 1)]
                prior = [z.Or(prior[i], V[i]) for i in range(N + 1)]
            self.depth -= 1
            return out
        raise EngineUnsupported("regex construct %s (forward)" % (op,))


def onehot_to_int(P):
    r = 0
    for i, b in enumerate(P):
        r = z.ite_i(b, i, r)
    return r


class SymMatch(object):
    """match object over a SymStr; group registers are computed on first use"""

    def __init__(self, s, tree, matcher, K, Pstart):
        self.string = s
        self.tree = tree
        self.m = matcher
        self.K = K
        self.Pstart = Pstart
        self._groups = None
        self._endP = None

    def _run(self):
        if self._groups is None:
            g = {}
            self._endP = self.m.fwd(self.tree, self.Pstart, self.K, g)
            self._groups = g

    def __bool__(self):
        return True

    def start(self, g=0):
        return mkint(self._span(g)[0])

    def end(self, g=0):
        return mkint(self._span(g)[1])

    def span(self, g=0):
        a, b = self._span(g)
        return (mkint(a), mkint(b))

    def _gid(self, g):
        if isinstance(g, str):
            return self.tree.state.groupdict[g]
        return g

    def _span(self, g):
        self._run()
        g = self._gid(g)
        if g == 0:
            return core.try_concretize(onehot_to_int(self.Pstart)), core.try_concretize(onehot_to_int(self._endP))
        reg = self._groups.get(g)
        if reg is None:
            return (-1, -1)
        P, E, anyp, always = reg
        if not always and not B_decide(anyp):
            return (-1, -1)
        return core.try_concretize(onehot_to_int(P)), core.try_concretize(onehot_to_int(E))

    def group(self, *gs):
        if not gs:
            gs = (0,)
        out = []
        for g in gs:
            a, b = self._span(g)
            out.append(None if (not is_sym(a) and a == -1 and g != 0) else self.string.sub(a, b))
        return out[0] if len(out) == 1 else tuple(out)

    __getitem__ = group

    def groups(self, default=None):
        n = self.tree.state.groups - 1
        return tuple((lambda v: default if v is None else v)(self.group(g)) for g in range(1, n + 1))

    def groupdict(self, default=None):
        return {nm: (lambda v: default if v is None else v)(self.group(g)) for nm, g in self.tree.state.groupdict.items()}

    def group_or_empty(self, g):
        """findall semantics: '' for a group that did not participate (no fork)"""
        self._run()
        reg = self._groups.get(self._gid(g))
        if reg is None:
            return ""
        P, E, anyp, always = reg
        return self.string.sub(onehot_to_int(P), onehot_to_int(E))


def _prep(pattern, s, flags=0):
    pat = compile_cached(pattern, flags)
    tree = parse(pat)
    m = Matcher(s, pat.flags)
    K = [z.le(i, s.n) for i in range(m.N + 1)]
    return pat, tree, m, K


def match(pattern, s, flags=0):
    if isinstance(s, str):
        return compile_cached(pattern, flags).match(s)
    pat, tree, m, K = _prep(pattern, s, flags)
    V = m.exist(tree, K)
    if not B_decide(V[0]):
        return None
    return SymMatch(s, tree, m, K, [True] + [False] * m.N)


def match_expr(pattern, s, flags=0):
    """Boolean (no fork): the pattern matches at position 0"""
    s = SymStr.lift(s)
    pat, tree, m, K = _prep(pattern, s, flags)
    return m.exist(tree, K)[0]


def fullmatch(pattern, s, flags=0):
    if isinstance(s, str):
        return compile_cached(pattern, flags).fullmatch(s)
    pat, tree, m, K = _prep(pattern, s, flags)
    K = [z.eq_i(i, s.n) for i in range(m.N + 1)]
    V = m.exist(tree, K)
    if not B_decide(V[0]):
        return None
    return SymMatch(s, tree, m, K, [True] + [False] * m.N)


def fullmatch_expr(pattern, s, flags=0):
    """Boolean (no fork): the whole of s matches the pattern"""
    s = SymStr.lift(s)
    pat, tree, m, K = _prep(pattern, s, flags)
    K = [z.eq_i(i, s.n) for i in range(m.N + 1)]
    return m.exist(tree, K)[0]


def search_expr(pattern, s, flags=0):
    s = SymStr.lift(s)
    pat, tree, m, K = _prep(pattern, s, flags)
    V = m.exist(tree, K)
    return z.Or([z.And(V[i], z.le(i, s.n)) for i in range(m.N + 1)])


def _first(cand):
    out = []
    seen = False
    for c in cand:
        out.append(z.And(c, z.Not(seen)))
        seen = z.Or(seen, c)
    return out


def search(pattern, s, flags=0):
    if isinstance(s, str):
        return compile_cached(pattern, flags).search(s)
    pat, tree, m, K = _prep(pattern, s, flags)
    V = m.exist(tree, K)
    cand = [z.And(V[i], z.le(i, s.n)) for i in range(m.N + 1)]
    if not B_decide(z.Or(cand)):
        return None
    return SymMatch(s, tree, m, K, _first(cand))


def finditer(pattern, s, flags=0):
    """list of SymMatch (forks on the number of matches, bounded by MAXMATCH)"""
    pat, tree, m, K = _prep(pattern, s, flags)
    if _minwidth(tree) == 0:
        raise EngineUnsupported("findall/sub/split with a pattern that can match the empty string")
    E = m.exist(tree, K)
    out = []
    pos = 0
    for it in range(MAXMATCH + 1):
        cand = [z.And(E[i], z.ge(i, pos), z.le(i, s.n)) for i in range(m.N + 1)]
        if not B_decide(z.Or(cand)):
            break
        if it == MAXMATCH:
            raise OutOfBound("more than %d matches" % MAXMATCH)
        mo = SymMatch(s, tree, m, K, _first(cand))
        out.append(mo)
        pos = mo._span(0)[1]
    return out


def findall(pattern, s, flags=0):
    if isinstance(s, str):
        return compile_cached(pattern, flags).findall(s)
    pat = compile_cached(pattern, flags)
    tree = parse(pat)
    ng = tree.state.groups - 1
    res = []
    tc = core.try_concretize_str if core.OPTS["concretize"] else (lambda x: x)
    for mo in finditer(pat, s):
        if ng == 0:
            res.append(tc(mo.group(0)))
        elif ng == 1:
            res.append(tc(mo.group_or_empty(1)))
        else:
            res.append(tuple(tc(mo.group_or_empty(g)) for g in range(1, ng + 1)))
    return res


def sub(pattern, repl, s, count=0, flags=0):
    if isinstance(s, str):
        if isinstance(repl, str):
            return compile_cached(pattern, flags).sub(repl, s, count)
        raise EngineUnsupported("re.sub with a non-str replacement")
    if count != 0 or not isinstance(repl, str):
        raise EngineUnsupported("re.sub with count / callable replacement")
    pat = compile_cached(pattern, flags)
    tmpl = sp.parse_template(repl, pat)
    parts = []
    last = 0
    mos = finditer(pat, s)
    if not mos:
        return s
    for mo in mos:
        a, b = mo._span(0)
        parts.append(s.sub(last, a))
        for t in tmpl:
            if isinstance(t, str):
                if t:
                    parts.append(t)
            elif t is not None:
                parts.append(mo.group_or_empty(t) if t != 0 else mo.group(0))
        last = b
    parts.append(s.sub(last, s.n))
    return concat(parts)


def split(pattern, s, maxsplit=0, flags=0):
    if isinstance(s, str):
        return compile_cached(pattern, flags).split(s, maxsplit)
    if maxsplit != 0:
        raise EngineUnsupported("re.split with maxsplit")
    pat = compile_cached(pattern, flags)
    tree = parse(pat)
    ng = tree.state.groups - 1
    out = []
    last = 0
    for mo in finditer(pat, s):
        a, b = mo._span(0)
        out.append(s.sub(last, a))
        for g in range(1, ng + 1):
            out.append(mo.group(g))
        last = b
    out.append(s.sub(last, s.n))
    return out
