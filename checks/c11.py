"""C11 - lasio's own output is a fixed point of read->write.

Kernel: LASFile.read and writer.write composed: file -read-> s1 -write-> t2 -read-> s2 -write->
t3 -read-> s3, all in one symbolic run; the assertion is s3 == s2 (header items with numbers
compared numerically, curve data, session mnemonics).  The input file holds concrete items
(duplicate and blank curve mnemonics, the odd unit .1IN, an empty value with a unit, long
fields, numbers of several magnitudes) and, in one header section, one fully symbolic line:
whatever the reader makes of it (s1 is in the reader's image by construction) must be stable
from the first re-read on.  After the first read the symbolic item's field lengths are pinned
by forking (shape case-split driven by the parser itself).
"""
import numpy as np
from symlas import core, z
from symlas.driver import apply_exclusions
from symlas.stubs import SymFile
from symlas.values import SymStr, SymInt, B, fresh_int, fresh_bool
from checks import writerlib as W
from checks import datafile as DF
from checks.common import allc, printable_ascii

PROPERTY = "C11"
FUNCTIONS = [
    "lasio/writer.py::write",
    "lasio/writer.py::get_section_widths",
    "lasio/writer.py::get_formatter_function",
    "lasio/writer.py::standardize_value",
    "lasio/las.py::LASFile.read",
    "lasio/las.py::LASFile.update_start_stop_step",
    "lasio/reader.py::parse_header_items_section",
    "lasio/reader.py::read_header_line",
    "lasio/reader.py::SectionParser.num",
    "lasio/las_items.py::SectionItems.assign_duplicate_suffixes",
]
OPTSETS = [{"version": 2.0}, {"version": 1.2}, {"version": 2.0, "wrap": True, "data_width": 24}, {}]
BASE = {
    "V": ["~Version", "VERS. 2.0 : v", "WRAP. NO : w"],
    "W": ["~Well", "STRT.M 1.0 : s", "STOP.M 2.0 : e", "STEP.M 1.0 : i", "NULL. -999.25 : n", "COMP. ACME OIL & GAS COMPANY LIMITED : company", "BIG. 1234567.891 : big", "SML. -0.000012345 : small", "EXP. 1E5 : exp"],
    "C": ["~Curve", "DEPT..1IN : depth", "RHO.K/M3 : dup 1", "RHO.K/M3 : dup 2", ". : unnamed"],
    "P": ["~Parameter", "NE.k : empty value with unit", "LONG.UNITS a rather long value field 1234567890 : a long description as well",
          "REM .ANY this remark is a very long value field that runs well past eighty characters in total width 1234567890 : remark"],
    "A": ["~A", "1.0 10.5 2.25 -0.125", "2.0 -999.25 2.5 0.375"],
}
BOUNDS = {
    "quick": {"line_cap": 3, "sections": ["P"], "optsets": [0, 1, 2], "task_budget_s": 1200},
    "thorough": {"line_cap": 4, "sections": ["P", "C"], "optsets": [0, 1, 2, 3], "task_budget_s": 3300},
}
ASSUMPTIONS = [
    "one symbolic header line (every printable-ASCII string up to the capacity) in ~W, ~P or ~C of the listed base file; lines the first read rejects are not accepted inputs",
    "paths on which a number parsed from symbolic text would have to be re-rendered (shortest float repr is libc code) are counted as outside the bound; numeric drift is exercised by the concrete numbers of the base file in the same run",
    "three reads / two writes per run: s3 == s2 is the statement's fixed point; longer cycle counts follow only for states of s2's form",
]
WITNESS_TARGETS = ["symbolic-line-parsed-as-item", "symbolic-line-skipped-or-comment", "second-re-read-compared"]
def _tilde_sym(i):
    from symlas import symre

    Ls = SymStr.lift(SymStr.lift(i["L"]).strip())
    return symre.match_expr(r"\.\s*~", Ls)


def _tilde_conc(i):
    import re

    return re.match(r"\.\s*~", i["L"].strip()) is not None


EXCLUSIONS = {"line_parsed_into_a_mnemonic_starting_with_tilde": (_tilde_sym, _tilde_conc)}


def tasks(tier):
    b = BOUNDS[tier]
    out = [{"name": "%s/opts%d" % (sec, oi), "params": {"section": sec, "opts": oi, "cap": b["line_cap"], "base": "std"}} for sec in b["sections"] for oi in b["optsets"]]
    out += [{"name": "%s/opts%d/dupnull" % (sec, oi), "params": {"section": sec, "opts": oi, "cap": b["line_cap"], "base": "dupnull"}} for sec in b["sections"][:1] for oi in (0, 1)]
    return out


def file_lines(section, L, base="std"):
    out = []
    for k in ("V", "W", "C", "P"):
        out += BASE[k]
        if k == "W" and base == "dupnull":
            out.append("NULL. -999.25 : a second NULL line")  # duplicated mnemonic with a per-version value/descr order
        if k == section:
            out.append(L)
    data = BASE["A"] if base == "std" else ["~A", "1.0 10.5 2.25 -0.125", "2.0 11.5 2.5 0.375"]
    return out + data


def pin(s):
    """fork on the length of a symbolic field and rebuild it with a fixed length"""
    if not isinstance(s, SymStr):
        return s
    n = s.length()
    k = n.__index__() if isinstance(n, SymInt) else n
    from symlas.values import mkstr

    return mkstr(SymStr(s.chars[:k], k))


def cycle(ns, las, opts):
    lines = W.write_lines(ns, las, **opts)
    las2 = ns.las.LASFile()
    las2.read(SymFile(lines), engine="normal", mnemonic_case="preserve")
    return las2, lines


def harness(ns, params):
    section, opts, cap, base = params["section"], OPTSETS[params["opts"]], params["cap"], params.get("base", "std")

    def run():
        A = core.assume
        core.OPTS["concretize"] = True
        L = SymStr.fresh("L", cap)
        A(allc(L, printable_ascii))
        A(z.Not(B(SymStr.lift(L.strip()).startswith("~"))))
        inputs = {"section": section, "opts": params["opts"], "L": L, "base": base}
        cx = core.ctx()
        cx.inputs = inputs
        apply_exclusions(inputs)
        s1 = ns.las.LASFile()
        try:
            s1.read(SymFile(file_lines(section, L, base)), engine="normal", mnemonic_case="preserve")
        except core.Abort:
            raise
        except Exception:
            raise core.Abort("not an accepted input")
        sec = s1.sections[W.SECTIONS[section]]
        nbase = len(BASE[section]) - 1 + (1 if (section == "W" and base == "dupnull") else 0)
        items = list(list.__iter__(sec))
        if len(items) > nbase:
            core.witness("symbolic-line-parsed-as-item")
            it = items[-1]
            # pin the shape of the parsed item (the parser decides the split, we fork on the lengths)
            for attr in ("original_mnemonic", "unit", "value", "descr"):
                val = getattr(it, attr)
                if isinstance(val, SymStr):
                    object.__setattr__(it, attr, pin(val))
            it.set_session_mnemonic_only(it.useful_mnemonic)
            sec.assign_duplicate_suffixes(it.useful_mnemonic)
        else:
            core.witness("symbolic-line-skipped-or-comment")
        try:
            s2, t2 = cycle(ns, s1, opts)
        except core.Abort:
            raise
        except Exception as e:
            core.oblige("own-output-is-readable", False, info=repr(e)[:200])
            return {"observed": {"raised": "cycle1:" + type(e).__name__}}
        h2, d2 = W.snapshot_sections(s2), DF.curves_as_lists(s2)
        k2 = [cv.mnemonic for cv in list.__iter__(s2.curves)]
        try:
            s3, t3 = cycle(ns, s2, opts)
        except core.Abort:
            raise
        except Exception as e:
            core.oblige("second-cycle-does-not-raise", False, info=repr(e)[:200])
            return {"observed": {"raised": "cycle2:" + type(e).__name__}}
        core.witness("second-re-read-compared")
        h3, d3 = W.snapshot_sections(s3), DF.curves_as_lists(s3)
        obl = W.sections_equal(h3, h2, skip=())
        obl.append(("same-curve-data", DF.same_cols(d3, d2)))
        k3 = [cv.mnemonic for cv in list.__iter__(s3.curves)]
        obl.append(("same-session-mnemonics", len(k2) == len(k3) and z.And([W.text_equal(a, b) for a, b in zip(k2, k3)])))
        core.oblige_all(obl)
        return {"observed": {"raised": None, "curves": k2}}

    return run


# ------------------------------------------------------------------------------ concrete oracle
def replay(i):
    import io
    import lasio

    opts = OPTSETS[i["opts"]]
    text = "\n".join(file_lines(i["section"], i["L"], i.get("base", "std"))) + "\n"
    try:
        s1 = lasio.read(text, engine="normal", mnemonic_case="preserve")
    except Exception as e:
        return {"ok": True, "detail": "not an accepted input (%r)" % (e,), "observed": {"raised": None, "curves": []}}

    def cyc(las):
        out = io.StringIO()
        las.write(out, **opts)
        return lasio.read(out.getvalue(), engine="normal", mnemonic_case="preserve"), out.getvalue()

    try:
        s2, t2 = cyc(s1)
    except Exception as e:
        return {"ok": False, "detail": "lasio cannot re-read/write what it read from line %r: %r" % (i["L"], e), "observed": {"raised": "cycle1:" + type(e).__name__}}
    try:
        s3, t3 = cyc(s2)
    except Exception as e:
        return {"ok": False, "detail": "second cycle raised %r on lasio's own output:\n%s" % (e, t2[:1500]), "observed": {"raised": "cycle2:" + type(e).__name__}}
    h2, d2, h3, d3 = W.snapshot_sections(s2), DF.curves_as_lists(s2), W.snapshot_sections(s3), DF.curves_as_lists(s3)
    obl = W.sections_equal(h3, h2, skip=())
    obl.append(("same-curve-data", DF.same_cols(d3, d2)))
    obl.append(("same-session-mnemonics", [c.mnemonic for c in s2.curves] == [c.mnemonic for c in s3.curves]))
    bad = [n for n, c in obl if not bool(c)]
    sec = W.SECTIONS[i["section"]]
    return {"ok": not bad, "detail": "ok" if not bad else "drift in %r for input line %r: after first re-read ~%s = %r, after the second = %r\nfirst output:\n%s" % (bad, i["L"], sec, h2.get(sec), h3.get(sec), "\n".join(l for l in t2.splitlines() if not l[:1].isdigit())[:1800]),
            "observed": {"raised": None, "curves": [c.mnemonic for c in s2.curves]}}
