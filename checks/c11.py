"""C11 - lasio's own output is a fixed point of read->write.

Kernel: LASFile.read and writer.write composed: file -read-> s1 -write-> t2 -read-> s2 -write->
t3 -read-> s3, all in one symbolic run; the assertion is s3 == s2 (header items with numbers
compared numerically, curve data, session mnemonics).  The input file holds concrete items
(duplicate and blank curve mnemonics, the odd unit .1IN, an empty value with a unit, long
fields, numbers of several magnitudes) and, in one header section, one fully symbolic line:
whatever the reader makes of it (s1 is in the reader's image by construction) must be stable
from the first re-read on.  After the first read the symbolic item's field lengths are pinned
by forking (shape case-split driven by the parser itself).
"""
import numpy as np
from symlas import core, z
from symlas.driver import apply_exclusions
from symlas.stubs import SymFile
from symlas.values import SymStr, SymInt, B, fresh_int, fresh_bool
from checks import writerlib as W
from checks import datafile as DF
from checks.common import allc, printable_ascii

PROPERTY = "C11"
FUNCTIONS = [
    "lasio/writer.py::write",
    "lasio/writer.py::get_section_widths",
    "lasio/writer.py::get_formatter_function",
    "lasio/writer.py::standardize_value",
    "lasio/las.py::LASFile.read",
    "lasio/las.py::LASFile.update_start_stop_step",
    "lasio/reader.py::parse_header_items_section",
    "lasio/reader.py::read_header_line",
    "lasio/reader.py::SectionParser.num",
    "lasio/las_items.py::SectionItems.assign_duplicate_suffixes",
]
OPTSETS = [{"version": 2.0}, {"version": 1.2}, {"version": 2.0, "wrap": True, "data_width": 24}, {}]
BASE = {
    "V": ["~Version", "VERS. 2.0 : v", "WRAP. NO : w"],
    # the long fields sit in ~Well: the sections that receive the symbolic line (~P, ~C) stay narrow, so that the
    # paddings the writer computes for a short symbolic item stay within the engine's bound on symbolic paddings
    "W": ["~Well", "STRT.M 1.0 : s", "STOP.M 2.0 : e", "STEP.M 1.0 : i", "NULL. -999.25 : n", "COMP. ACME OIL & GAS COMPANY LIMITED : company", "BIG. 1234567.891 : big", "SML. -0.000012345 : small", "EXP. 1E5 : exp",
          "LONG.UNITS a rather long value field 1234567890 : a long description as well",
          "REM .ANY this remark is a very long value field that runs well past eighty characters in total width 1234567890 : remark"],
    "C": ["~Curve", "DEPT..1IN : depth", "RHO.K/M3 : dup 1", "RHO.K/M3 : dup 2", ". : unnamed"],
    "P": ["~Parameter", "NE.k : empty value with unit", "BHT.DEGC 35.5 : temperature"],
    "A": ["~A", "1.0 10.5 2.25 -0.125", "2.0 -999.25 2.5 0.375"],
}
BOUNDS = {
    "quick": {"line_cap": 3, "sections": ["P"], "optsets": [0, 1, 2], "task_budget_s": 1200},
    "thorough": {"line_cap": 4, "sections": ["P", "C"], "optsets": [0, 1, 2, 3], "task_budget_s": 3300,
                 "caps": {"P/0": 4, "P/1": 4, "default": 3}},
}
ASSUMPTIONS = [
    "one symbolic header line (every printable-ASCII string up to the capacity) in ~W, ~P or ~C of the listed base file; lines the first read rejects are not accepted inputs",
    "paths on which a number parsed from symbolic text would have to be re-rendered (shortest float repr is libc code) are counted as outside the bound; numeric drift is exercised by the concrete numbers of the base file in the same run",
    "three reads / two writes per run: s3 == s2 is the statement's fixed point; longer cycle counts follow only for states of s2's form",
]
WITNESS_TARGETS = ["symbolic-line-parsed-as-item", "symbolic-line-skipped-or-comment", "second-re-read-compared"]
def _tilde_sym(i):
    from symlas import symre

    Ls = SymStr.lift(SymStr.lift(i["L"]).strip())
    return symre.match_expr(r"\.\s*~", Ls)


def _tilde_conc(i):
    import re

    return re.match(r"\.\s*~", i["L"].strip()) is not None


def _has(x, ch):
    if isinstance(x, SymStr):
        return z.Or([z.And(x.inlen(k), z.eq_c(x.chars[k], ord(ch))) for k in range(x.cap)])
    return isinstance(x, str) and ch in x


def unrepresentable_mnemonic(it):
    """the (stripped) mnemonic starts with '~' or '#', or contains ':' or '.' next to an empty unit: the line the writer
    emits for it is a title / a comment / splits elsewhere"""
    m = it.original_mnemonic
    ms = SymStr.lift(SymStr.lift(m).strip()) if isinstance(m, SymStr) else m.strip()
    starts = z.Or(B(SymStr.lift(ms).startswith("~")), B(SymStr.lift(ms).startswith("#"))) if isinstance(ms, SymStr) else ms[:1] in ("~", "#")
    unit_empty = SymStr.lift(it.unit).eq_expr("") if isinstance(it.unit, (str, SymStr)) else False
    return z.Or(starts, _has(m, ":"), z.And(_has(m, "."), unit_empty))


def blank_mnemonic_with_period(it):
    m = it.original_mnemonic
    blank = SymStr.lift(SymStr.lift(m).strip()).eq_expr("") if isinstance(m, SymStr) else m.strip() == ""
    return z.And(blank, z.Or([_has(getattr(it, f), ".") for f in ("unit", "value", "descr")]))


def digit_unit_with_empty_value(it):
    """unit made of digits (and blanks) with an empty value: write() turns the empty value into 0, which the reader
    then takes into the unit ('9' -> '9 0'), and one cycle later the value 0 appears"""
    u, v = it.unit, it.value
    if not isinstance(u, (str, SymStr)) or not isinstance(v, (str, SymStr)):
        return False
    u = SymStr.lift(u)
    digits = z.And([z.Or(z.Not(u.inlen(k)), z.in_range_c(u.chars[k], 48, 57), z.eq_c(u.chars[k], 32)) for k in range(u.cap)] + [z.Not(u.eq_expr(""))])
    return z.And(digits, SymStr.lift(v).eq_expr(""))


def _conc_states(i):
    """items of the symbolic line's section after the first read and after the first re-read, on the real lasio"""
    import io
    import lasio

    out = []
    try:
        s1 = lasio.read("\n".join(file_lines(i["section"], i["L"], i.get("base", "std"))) + "\n", engine="normal", mnemonic_case="preserve")
        out += list(s1.sections[W.SECTIONS[i["section"]]])
        buf = io.StringIO()
        s1.write(buf, **OPTSETS[i["opts"]])
        s2 = lasio.read(buf.getvalue(), engine="normal", mnemonic_case="preserve")
        for sec in s2.sections.values():
            if not isinstance(sec, str):
                out += list(sec)
    except Exception:
        pass
    return out


def _unrep_conc(i):
    return any(bool(unrepresentable_mnemonic(it)) for it in _conc_states(i))


def _blankdot_conc(i):
    return any(bool(blank_mnemonic_with_period(it)) for it in _conc_states(i))


def _digitunit_conc(i):
    return any(bool(digit_unit_with_empty_value(it)) for it in _conc_states(i))


# the two classes below are stated over what the reader makes of the line (and of lasio's first output), so their
# symbolic form is conjoined in the harness (driver.exclude_late) once those items exist
EXCLUSIONS = {"line_parsed_into_a_mnemonic_starting_with_tilde": (_tilde_sym, _tilde_conc),
              "item_with_a_mnemonic_no_header_line_can_carry": (lambda i: False, _unrep_conc),
              "blank_mnemonic_with_a_period_in_another_field": (lambda i: False, _blankdot_conc),
              "digit_unit_with_an_empty_value": (lambda i: False, _digitunit_conc)}


def late_exclusions(las):
    from symlas.driver import exclude_late

    for sec in las.sections.values():
        if isinstance(sec, (str, SymStr)):
            continue
        for it in list.__iter__(sec):
            if any(isinstance(getattr(it, f), SymStr) for f in ("original_mnemonic", "unit", "value", "descr")):
                exclude_late("item_with_a_mnemonic_no_header_line_can_carry", unrepresentable_mnemonic(it))
                exclude_late("blank_mnemonic_with_a_period_in_another_field", blank_mnemonic_with_period(it))
                exclude_late("digit_unit_with_an_empty_value", digit_unit_with_empty_value(it))


CLASSES = {"colon": lambda c: z.eq_c(c, 58), "period": lambda c: z.eq_c(c, 46), "blank": lambda c: z.eq_c(c, 32),
           "other": lambda c: z.Not(z.in_set_c(c, (58, 46, 32)))}


def splits(cap):
    """exhaustive case-split of the symbolic line by its length and the classes of its first two characters
    (one task each: the cases are independent and run in parallel)"""
    out = [[n] for n in range(0, min(cap, 2))]
    for n in range(min(cap, 2), cap + 1):
        if n == 1:
            out += [[1, c0] for c0 in CLASSES]
        elif n >= 2:
            out += [[n, c0, c1] for c0 in CLASSES for c1 in CLASSES]
    return out


def tasks(tier):
    b = BOUNDS[tier]
    fams = [(sec, oi, "std") for sec in b["sections"] for oi in b["optsets"]]
    if tier == "quick":
        fams += [("P", 1, "dupnull"), ("P", 0, "unitlonger"), ("P", 1, "nounit"), ("P", 0, "emptystep")]
    else:
        fams += [("P", oi, bs) for oi in (0, 1) for bs in ("dupnull", "unitlonger", "nounit", "emptystep")]
    def cap_of(sec, oi, bs):
        caps = b.get("caps")
        if not caps:
            return b["line_cap"]
        return caps.get("%s/%d" % (sec, oi), caps["default"]) if bs == "std" else caps["default"]

    return [{"name": "%s/opts%d/%s/%s" % (sec, oi, bs, "-".join(map(str, sp))), "params": {"section": sec, "opts": oi, "cap": cap_of(sec, oi, bs), "base": bs, "split": sp}, "weight": sp[0]}
            for sec, oi, bs in fams for sp in splits(cap_of(sec, oi, bs))]


# bases in which the index curve's unit is longer than the unit of STRT/STOP/STEP (or those have none) and
# STRT/STOP/STEP are the widest unit+value entries of ~Well: the writer re-units them from the curve
ALT = {
    "unitlonger": {"W": ["~Well", "STRT.M 1670.125 : s", "STOP.M 1670.25 : e", "STEP.M 0.125 : i", "NULL. -999.25 : n"], "C": ["~Curve", "DEPT.METRES : depth", "GR.API : g"],
                   "P": ["~Parameter", "NE.k : empty value with unit"], "A": ["~A", "1670.125 10.5", "1670.25 11.5"]},
    # STEP without unit and without value, STOP agreeing with the data (so nothing is recomputed): the writer first
    # gives STEP the unit of the index curve and then turns the empty value into 0
    "emptystep": {"W": ["~Well", "STRT.M 1670.125 : s", "STOP.M 1670.25 : e", "STEP. : i", "NULL. -999.25 : n"], "C": ["~Curve", "DEPT.M : depth", "GR.API : g"],
                  "P": ["~Parameter", "NE.k : empty value with unit"], "A": ["~A", "1670.125 10.5", "1670.25 11.5"]},
    "nounit": {"W": ["~Well", "STRT. 1670.125 : s", "STOP. 1670.25 : e", "STEP. 0.125 : i", "NULL. -999.25 : n"], "C": ["~Curve", "DEPT.FT : depth", "GR.API : g"],
               "P": ["~Parameter", "NE.k : empty value with unit"], "A": ["~A", "1670.125 10.5", "1670.25 11.5"]},
}


def file_lines(section, L, base="std"):
    out = []
    if base in ALT:
        for k in ("V", "W", "C", "P"):
            out += ALT[base].get(k, BASE[k])
            if k == section:
                out.append(L)
        return out + ALT[base]["A"]
    for k in ("V", "W", "C", "P"):
        out += BASE[k]
        if k == "W" and base == "dupnull":
            out.append("NULL. -999.25 : a second NULL line")  # duplicated mnemonic with a per-version value/descr order
        if k == section:
            out.append(L)
    data = BASE["A"] if base == "std" else ["~A", "1.0 10.5 2.25 -0.125", "2.0 11.5 2.5 0.375"]
    return out + data


def pin(s):
    """fork on the length of a symbolic field and rebuild it with a fixed length"""
    if not isinstance(s, SymStr):
        return s
    n = s.length()
    k = n.__index__() if isinstance(n, SymInt) else n
    from symlas.values import mkstr

    return mkstr(SymStr(s.chars[:k], k))


def cycle(ns, las, opts):
    lines = W.write_lines(ns, las, **opts)
    las2 = ns.las.LASFile()
    las2.read(SymFile(lines), engine="normal", mnemonic_case="preserve")
    return las2, lines


def harness(ns, params):
    section, opts, cap, base = params["section"], OPTSETS[params["opts"]], params["cap"], params.get("base", "std")

    def run():
        A = core.assume
        core.OPTS["concretize"] = True
        L = SymStr.fresh("L", cap)
        A(allc(L, printable_ascii))
        A(z.Not(B(SymStr.lift(L.strip()).startswith("~"))))
        sp = params.get("split")
        if sp:
            A(z.eq_i(L.n, sp[0]))
            for k, cls in enumerate(sp[1:]):
                A(CLASSES[cls](L.chars[k]))
        inputs = {"section": section, "opts": params["opts"], "L": L, "base": base}
        cx = core.ctx()
        cx.inputs = inputs
        apply_exclusions(inputs)
        s1 = ns.las.LASFile()
        try:
            s1.read(SymFile(file_lines(section, L, base)), engine="normal", mnemonic_case="preserve")
        except core.Abort:
            raise
        except Exception as e:
            # "lasio rejects this input" must be the real reader's verdict too, not an artefact of the engine
            from symlas.values import concretize
            import lasio as _real

            Lc = concretize(L, cx.ensure_model())
            try:
                _real.read("\n".join(file_lines(section, Lc, base)) + "\n", engine="normal", mnemonic_case="preserve")
            except Exception:
                raise core.Abort("not an accepted input")
            raise core.Inconclusive("the engine's read raised %r on %r, which the real reader accepts" % (e, Lc))
        sec = s1.sections[W.SECTIONS[section]]
        nbase = len((ALT[base] if base in ALT else BASE)[section]) - 1 + (1 if (section == "W" and base == "dupnull") else 0)
        items = list(list.__iter__(sec))
        if len(items) > nbase:
            core.witness("symbolic-line-parsed-as-item")
            it = items[-1]
            # pin the shape of the parsed item (the parser decides the split, we fork on the lengths)
            for attr in ("original_mnemonic", "unit", "value", "descr"):
                val = getattr(it, attr)
                if isinstance(val, SymStr):
                    object.__setattr__(it, attr, pin(val))
            it.set_session_mnemonic_only(it.useful_mnemonic)
            sec.assign_duplicate_suffixes(it.useful_mnemonic)
        else:
            core.witness("symbolic-line-skipped-or-comment")
        late_exclusions(s1)
        try:
            s2, t2 = cycle(ns, s1, opts)
        except core.Abort:
            raise
        except Exception as e:
            core.oblige("own-output-is-readable", False, info=repr(e)[:200])
            return {"observed": {"raised": "cycle1:" + type(e).__name__}}
        late_exclusions(s2)
        h2, d2 = W.snapshot_sections(s2), DF.curves_as_lists(s2)
        k2 = [cv.mnemonic for cv in list.__iter__(s2.curves)]
        try:
            s3, t3 = cycle(ns, s2, opts)
        except core.Abort:
            raise
        except Exception as e:
            core.oblige("second-cycle-does-not-raise", False, info=repr(e)[:200])
            return {"observed": {"raised": "cycle2:" + type(e).__name__}}
        core.witness("second-re-read-compared")
        h3, d3 = W.snapshot_sections(s3), DF.curves_as_lists(s3)
        obl = W.sections_equal(h3, h2, skip=())
        obl.append(("same-curve-data", DF.same_cols(d3, d2)))
        k3 = [cv.mnemonic for cv in list.__iter__(s3.curves)]
        obl.append(("same-session-mnemonics", len(k2) == len(k3) and z.And([W.text_equal(a, b) for a, b in zip(k2, k3)])))
        core.oblige_all(obl)
        return {"observed": {"raised": None, "curves": k2}}

    return run


# ------------------------------------------------------------------------------ concrete oracle
def replay(i):
    import io
    import lasio

    opts = OPTSETS[i["opts"]]
    text = "\n".join(file_lines(i["section"], i["L"], i.get("base", "std"))) + "\n"
    try:
        s1 = lasio.read(text, engine="normal", mnemonic_case="preserve")
    except Exception as e:
        return {"ok": True, "detail": "not an accepted input (%r)" % (e,), "observed": {"raised": None, "curves": []}}

    def cyc(las):
        out = io.StringIO()
        las.write(out, **opts)
        return lasio.read(out.getvalue(), engine="normal", mnemonic_case="preserve"), out.getvalue()

    try:
        s2, t2 = cyc(s1)
    except Exception as e:
        return {"ok": False, "detail": "lasio cannot re-read/write what it read from line %r: %r" % (i["L"], e), "observed": {"raised": "cycle1:" + type(e).__name__}}
    h2, d2, k2 = W.snapshot_sections(s2), DF.curves_as_lists(s2), [c.mnemonic for c in s2.curves]  # before write() normalises s2 in memory
    try:
        s3, t3 = cyc(s2)
    except Exception as e:
        return {"ok": False, "detail": "second cycle raised %r on lasio's own output:\n%s" % (e, t2[:1500]), "observed": {"raised": "cycle2:" + type(e).__name__}}
    h3, d3 = W.snapshot_sections(s3), DF.curves_as_lists(s3)
    obl = W.sections_equal(h3, h2, skip=())
    obl.append(("same-curve-data", DF.same_cols(d3, d2)))
    obl.append(("same-session-mnemonics", k2 == [c.mnemonic for c in s3.curves]))
    bad = [n for n, c in obl if not bool(c)]
    sec = W.SECTIONS[i["section"]]
    return {"ok": not bad, "detail": "ok" if not bad else "drift in %r for input line %r: after first re-read ~%s = %r, after the second = %r\nfirst output:\n%s" % (bad, i["L"], sec, h2.get(sec), h3.get(sec), "\n".join(l for l in t2.splitlines() if not l[:1].isdigit())[:1800]),
            "observed": {"raised": None, "curves": [c.mnemonic for c in s2.curves]}}
