"""Shared builder for the data-section checks (C02, C07, C09, C06, C01).

A file = concrete header + a data section whose *layout* is symbolic: paddings (blank/tab
strings of symbolic length and content) around concrete numeric tokens, an optional extra
line (blank / whitespace-only / comment) at a symbolic position, line terminators, final
newline, and what follows ~A.  Token texts are concrete so that real numpy converts them;
which token lands in which cell is what the properties are about.
"""
import numpy as np
from symlas import core, z
from symlas.stubs import SymFile
from symlas.values import SymStr, SymInt, B, concat, fresh_int, fresh_bool
from checks.common import Layout, blank_or_tab

SPELLINGS = ["1", "2.5", ".5", "2.5e-3", "5.", "1e2", "-9", "7.25", "0", "-0.5", "1.25E-02", "3.0", "-3", "4E+1"]  # index 3: the second row of a two-column file
AFTER = {"last": [], "P": ["~Parameter", "BHT.C 35 : t"], "O": ["~Other", "some text"], "X": ["~Xtra", "KEY. val : k"]}


TEXT_INDEX = [False]  # set by a harness (per run) to make the index column a text column


def token(i, j, cols):
    """the concrete numeral of cell (i, j): distinct per cell so that displacement is visible"""
    base = SPELLINGS[(i * cols + j) % len(SPELLINGS)]
    if j == 0:
        if TEXT_INDEX[0]:
            return ["AA", "BB", "CC", "DD", "EE", "FF", "GG", "HH"][i]
        return str(10 * (i + 1))  # a clean increasing index
    return base


def header(cols, declared=None, null="-9", wrap="NO", extra_well=()):
    declared = cols if declared is None else declared
    lines = ["~Version", "VERS. 2.0 : v", "WRAP. %s : w" % wrap, "~Well", "NULL. %s : n" % null] + list(extra_well) + ["~Curve"]
    names = ["DEPT", "GR", "RHOB", "NPHI", "DT", "CALI"]
    for k in range(declared):
        lines.append("%s.%s : c%d" % (names[k], "M" if k == 0 else "U%d" % k, k))
    return lines


def data_line(name, toks, pcap):
    """Layout of one data line: pad tok pad tok ... pad (pads of blanks/tabs, >= 1 between tokens);
    pcap 0: the concrete line with single blanks"""
    if pcap == 0:
        return " ".join(toks)
    segs = [{"name": "p0", "lo": 0, "hi": pcap, "cls": blank_or_tab}]
    for k, t in enumerate(toks):
        segs.append({"name": "t%d" % k, "lit": t})
        last = k == len(toks) - 1
        segs.append({"name": "p%d" % (k + 1), "lo": 0 if last else 1, "hi": pcap, "cls": blank_or_tab})
    lay = Layout(name, segs)
    return lay.line


def expected_matrix(rows, cols, null=-9.0):
    m = [[(token(i, j, cols) if (j == 0 and TEXT_INDEX[0]) else float(token(i, j, cols))) for j in range(cols)] for i in range(rows)]
    out = []
    for j in range(cols):
        col = [m[i][j] for i in range(rows)]
        if j != 0:
            col = [float("nan") if v == null else v for v in col]
        out.append(col)
    return out  # list of columns


def same_cols(a, b):
    if len(a) != len(b):
        return False
    for x, y in zip(a, b):
        if len(x) != len(y):
            return False
        for p, q in zip(x, y):
            if not (p == q or (p != p and q != q)):
                return False
    return True


def curves_as_lists(las):
    out = []
    for c in list.__iter__(las.curves) if hasattr(las.curves, "__iter__") else las.curves:
        d = c.data
        out.append([float(v) if not isinstance(v, str) else v for v in (d.tolist() if hasattr(d, "tolist") else list(d))])
    return out


def header_snapshot(las):
    snap = {}
    for name, sec in las.sections.items():
        if isinstance(sec, (str, SymStr)):
            snap[name] = sec
        else:
            snap[name] = [(it.original_mnemonic, it.unit, it.value if not (isinstance(it.value, float) and it.value != it.value) else "nan", it.descr) for it in list.__iter__(sec)]
    return snap


EXTRA_KINDS = ["none", "blank", "spaces", "comment", "tab-comment"]
EXTRA_TEXT = {"blank": "", "spaces": "  ", "comment": "# remark 1 2", "tab-comment": "\t# remark 1 2"}


def build_data_section(rows, cols, pcap, after, extra_kind, extra_pos, crlf, final_newline, title="~ASCII"):
    """returns (lines, terms) of the whole data section + what follows (extra_pos: after that many rows)"""
    lines = [title]
    for i in range(rows):
        if extra_kind != "none" and extra_pos == i:
            lines.append(EXTRA_TEXT[extra_kind])
        lines.append(data_line("L%d" % i, [token(i, j, cols) for j in range(cols)], pcap))
    if extra_kind != "none" and extra_pos == rows:
        lines.append(EXTRA_TEXT[extra_kind])
    lines += AFTER[after]
    return lines


def concrete_text(header_lines, rows, cols, pads, after, extra_kind, extra_pos, crlf, final_newline, title="~ASCII"):
    """the same file as text for the replay (pads: list per row of list of pad strings)"""
    lines = list(header_lines) + [title]
    for i in range(rows):
        if extra_kind != "none" and extra_pos == i:
            lines.append(EXTRA_TEXT[extra_kind])
        lines.append(pads[i])
    if extra_kind != "none" and extra_pos == rows:
        lines.append(EXTRA_TEXT[extra_kind])
    lines += AFTER[after]
    nl = "\r\n" if crlf else "\n"
    text = nl.join(lines)
    if final_newline:
        text += nl
    return text
