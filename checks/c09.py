"""C09 - reading is invariant under presentation-only changes of the text.

Kernel: the whole real LASFile.read on a base file and on a transformed file in the same
symbolic run (metamorphic, by self-composition).  The transformation is symbolic: inserted
blank / whitespace-only / '#' lines at a symbolic place with symbolic comment text; blank/tab
paddings of symbolic length and content around the fields of a header line or around data
tokens; LF/CRLF; missing final newline; re-wrapping of WRAP=YES data at a symbolic token
boundary; re-delimiting with the declared delimiter with symbolic padding.
"""
import numpy as np
from symlas import core, z, symnp
from symlas.driver import apply_exclusions
from symlas.stubs import SymFile
from symlas.values import SymStr, SymInt, B, concat, fresh_int, fresh_bool
from checks import datafile as DF
from checks.common import Layout, blank_or_tab, printable_ascii, allc

PROPERTY = "C09"
FUNCTIONS = [
    "lasio/las.py::LASFile.read",
    "lasio/reader.py::find_sections_in_file",
    "lasio/reader.py::parse_header_items_section",
    "lasio/reader.py::read_header_line",
    "lasio/reader.py::inspect_data_section",
    "lasio/reader.py::read_data_section_iterative_normal_engine",
    "lasio/reader.py::read_data_section_iterative_numpy_engine",
    "lasio/reader.py::define_line_splitter",
]
HEADER_ITEMS = [  # (section index line, mnemonic, unit, value, descr)
    ("V", "VERS", "", "2.0", "v"), ("V", "WRAP", "", "NO", "w"), ("W", "STRT", "M", "10", "s"), ("W", "STOP", "M", "20", "e"), ("W", "STEP", "M", "10", "i"),
    ("W", "NULL", "", "-9", "n"), ("W", "COMP", "", "ACME OIL", "company"), ("C", "DEPT", "M", "", "d"), ("C", "GR", "API", "45 310", "gamma"), ("P", "BHT", "DEGC", "35.5", "t"),
]
TITLES = {"V": "~Version", "W": "~Well", "C": "~Curve", "P": "~Parameter", "A": "~ASCII"}
DATA = [["10", "2.5"], ["20", "-9"]]
DATA_NEG = [["10", "-2.5"], ["20", "-9"]]  # a hyphen in every data line: the reader re-inspects the section without its hyphen substitutions
KINDS = ["insert", "insert-1row", "pad-header", "pad-title", "pad-data", "rewrap", "delimiter"]
BOUNDS = {
    "quick": {"kinds": KINDS, "pad_cap": 2, "header_pad_cap": 1, "comment_cap": 3, "engines": ["numpy", "normal"], "task_budget_s": 900},
    "thorough": {"kinds": KINDS, "pad_cap": 3, "header_pad_cap": 2, "comment_cap": 5, "engines": ["numpy", "normal"], "task_budget_s": 3000},
}
ASSUMPTIONS = [
    "one base file (the listed header items, 2x2 data; for re-wrapping a WRAP=YES file with 2 depth steps of 4 values; for re-delimiting DLM in {SPACE, TAB, COMMA})",
    "one transformation per run (quick), composed with LF/CRLF and final-newline choices; sites, amounts and characters of the transformation are symbolic",
    "genfromtxt is the validated contract stub of C02",
]
WITNESS_TARGETS = ["comment-line-in-data-section", "blank-line-in-header", "tab-padding", "crlf", "wrap-one-value-per-line", "comma-delimited", "indented-comment-line", "comma-delimited-hyphen-in-every-line", "indented-title-line"]
EXCLUSIONS = {}


def tasks(tier):
    b = BOUNDS[tier]
    out = []
    for k in b["kinds"]:
        if k == "pad-header":
            for li in ([0, 5, 6, 8] if tier == "quick" else range(len(HEADER_ITEMS))):
                out.append({"name": "pad-header-%s" % HEADER_ITEMS[li][1], "params": {"kind": k, "item": li, "pcap": b["header_pad_cap"], "ccap": b["comment_cap"]}, "weight": 3})
        elif k == "pad-title":
            for tk in (["W", "C"] if tier == "quick" else ["V", "W", "C", "P", "A"]):
                out.append({"name": "pad-title-%s" % tk, "params": {"kind": k, "title": tk, "pcap": b["header_pad_cap"] + 1, "ccap": b["comment_cap"]}, "weight": 3})
                if tk == "W":  # a 1.2 file: the ~Well title decides the value/description order of its lines
                    out.append({"name": "pad-title-W-1.2", "params": {"kind": k, "title": tk, "v12": True, "pcap": b["header_pad_cap"] + 1, "ccap": b["comment_cap"]}, "weight": 3})
        elif k == "delimiter":
            for dlm in ("SPACE", "TAB", "COMMA"):
                out.append({"name": "delimiter-%s" % dlm, "params": {"kind": k, "dlm": dlm, "pcap": b["header_pad_cap"], "ccap": b["comment_cap"]}, "weight": 4})
            for dlm in ("SPACE", "COMMA"):
                out.append({"name": "delimiter-%s-hyphen-in-every-line" % dlm, "params": {"kind": k, "dlm": dlm, "neg": True, "pcap": b["header_pad_cap"], "ccap": b["comment_cap"]}, "weight": 4})
        else:
            out.append({"name": k, "params": {"kind": k, "pcap": b["pad_cap"], "ccap": b["comment_cap"]}, "weight": 2})
    return out


def header_line(it):
    _, m, u, v, d = it
    return "%s.%s %s : %s" % (m, u, v, d)


def base_lines(wrap="NO", dlm=None, data=None):
    out = []
    cur = None
    items = list(HEADER_ITEMS)
    if data and len(data[0]) == 4:  # the wrapped base file declares four curves
        k = [i for i, it in enumerate(items) if it[1] == "GR"][0]
        items[k + 1:k + 1] = [("C", "RHOB", "K/M3", "", "density"), ("C", "NPHI", "V/V", "", "porosity")]
    for it in items:
        if it[0] != cur:
            cur = it[0]
            out.append(TITLES[cur])
        ln = header_line(it)
        if it[1] == "WRAP":
            ln = "WRAP. %s : w" % wrap
        out.append(ln)
        if it[1] == "WRAP" and dlm:
            out.append("DLM. %s : delim" % dlm)
    out.append(TITLES["A"])
    sep = {"SPACE": " ", "TAB": "\t", "COMMA": ","}[dlm or "SPACE"]
    for row in (data or DATA):
        out.append(sep.join(row))
    return out


def snapshot(las):
    snap = DF.header_snapshot(las)
    return snap, DF.curves_as_lists(las), [cv.original_mnemonic for cv in list.__iter__(las.curves)]


_REF = {}


def reference(key, lines, engine):
    """the base file read by the real lasio"""
    k = (key, engine)
    if k not in _REF:
        import lasio

        las = lasio.read("\n".join(lines) + "\n", engine=engine)
        _REF[k] = snapshot(las)
    return _REF[k]


def same_snapshot(a, b):
    ha, da, na = a
    hb, db, nb = b
    if na != nb or not DF.same_cols(da, db) or set(ha) != set(hb):
        return False
    cs = []
    for k in ha:
        x, y = ha[k], hb[k]
        if isinstance(x, (str, SymStr)) or isinstance(y, (str, SymStr)):
            cs.append(SymStr.lift(x).eq_expr(y) if isinstance(x, (str, SymStr)) and isinstance(y, (str, SymStr)) else False)
            continue
        if len(x) != len(y):
            return False
        for p, q in zip(x, y):
            for u, v in zip(p, q):
                from symlas.symnum import SymNum

                if isinstance(u, SymNum) or isinstance(v, SymNum):
                    # numbers parsed from symbolic text: equal iff same kind and same source text
                    if isinstance(u, SymNum) and isinstance(v, SymNum) and u.kind == v.kind:
                        cs.append(SymStr.lift(u.text).eq_expr(v.text))
                    else:
                        return False
                elif isinstance(u, (str, SymStr)) and isinstance(v, (str, SymStr)):
                    cs.append(SymStr.lift(u).eq_expr(v))
                elif isinstance(u, (str, SymStr)) or isinstance(v, (str, SymStr)):
                    return False
                else:
                    cs.append(bool(u == v))
    return z.And(cs)


def harness(ns, params):
    kind, pcap, ccap = params["kind"], params["pcap"], params["ccap"]

    def run():
        A = core.assume
        core.OPTS["concretize"] = True
        crlf = fresh_bool("crlf")
        fnl = fresh_bool("final_newline")
        eng = fresh_bool("engine_numpy")
        sel = fresh_int("sel", 0, 80)
        inputs = {"kind": kind, "crlf": crlf, "final_newline": fnl, "engine_numpy": eng, "sel": sel, "params": {k: v for k, v in params.items() if k in ("item", "dlm", "neg", "title", "v12")}}
        cx = core.ctx()
        cx.inputs = inputs
        apply_exclusions(inputs)
        crlf_c, fnl_c, eng_c = bool(crlf), bool(fnl), ("numpy" if bool(eng) else "normal")
        core.witness("crlf", crlf_c)
        wrap, dlm, data = "NO", None, None
        if kind == "rewrap":
            wrap, data = "YES", [["10", "2.5", "3", "4.5"], ["20", "-9", "7", "8.5"]]
        if kind == "delimiter":
            dlm = params["dlm"]
            core.witness("comma-delimited", dlm == "COMMA")
            if params.get("neg"):
                data = DATA_NEG
                core.witness("comma-delimited-hyphen-in-every-line", dlm == "COMMA")
        if kind == "insert-1row":
            data = [["10", "2.5"]]  # a single depth step
        base = base_lines(wrap, dlm, data)
        if params.get("v12"):
            base = [("VERS. 1.2 : v" if ln == "VERS. 2.0 : v" else ("COMP. company : ACME OIL" if ln == "COMP. ACME OIL : company" else ln)) for ln in base]
        lines = list(base)
        if kind == "pad-title":
            idx = base.index(TITLES[params["title"]])
            pad = lambda nm: {"name": nm, "lo": 0, "hi": pcap, "cls": blank_or_tab}
            lay = Layout("T", [pad("p0"), {"name": "t", "lit": TITLES[params["title"]]}, pad("p1")])
            lines[idx] = lay.line
            inputs["line"] = lay.line
            core.witness("indented-title-line", lay.nonempty("p0"))
        elif kind in ("insert", "insert-1row"):
            # a blank / whitespace-only / (possibly indented) comment line before line p (p = len: at the very end)
            A(z.le(sel.e, 3 * (len(base) + 1) - 1))
            sv = sel.__index__()
            what, p = sv % 3, sv // 3
            if p < 1:  # not before the first title (text before ~V is not a section line)
                raise core.Abort()
            if what == 0:
                ins = ""
            elif what == 1:
                ins = SymStr.fresh("ws", pcap, minlen=1)
                A(allc(ins, blank_or_tab))
            else:
                txt = SymStr.fresh("cmt", ccap)
                A(allc(txt, printable_ascii))
                ind = SymStr.fresh("indent", pcap)
                A(allc(ind, blank_or_tab))
                ins = SymStr.lift(concat([ind, "#", txt]))
                core.witness("indented-comment-line", ind.truth())
            lines.insert(p, ins)
            inputs["inserted"] = ins
            in_data = p > base.index(TITLES["A"])
            core.witness("comment-line-in-data-section", what == 2 and in_data)
            core.witness("blank-line-in-header", what == 0 and not in_data)
        elif kind == "pad-header":
            it = HEADER_ITEMS[params["item"]]
            idx = base.index(header_line(it)) if it[1] != "WRAP" else base.index("WRAP. NO : w")
            pad = lambda nm, lo=0: {"name": nm, "lo": lo, "hi": pcap, "cls": blank_or_tab}
            segs = [pad("p0"), {"name": "m", "lit": it[1]}, pad("p1"), {"name": "dot", "lit": "."}]
            if it[2]:
                segs.append({"name": "u", "lit": it[2]})
            val = it[3] if it[1] != "WRAP" else "NO"
            segs.append(pad("p2", 1 if val else 0))
            if val:
                segs.append({"name": "v", "lit": val})
            segs += [pad("p3"), {"name": "colon", "lit": ":"}, pad("p4"), {"name": "d", "lit": it[4]}, pad("p5")]
            lay = Layout("H", segs)
            lines[idx] = lay.line
            inputs["line"] = lay.line
            core.witness("tab-padding", lay.any_char("p2", lambda c: z.eq_c(c, 9)))
        elif kind == "pad-data":
            start = base.index(TITLES["A"]) + 1
            dl = []
            for i, row in enumerate(DATA):
                ln = DF.data_line("D%d" % i, row, pcap)
                lines[start + i] = ln
                dl.append(ln)
            inputs["data_lines"] = dl
        elif kind == "rewrap":
            # every depth step re-broken at a symbolic token boundary (1..4 values on the first line)
            A(z.le(sel.e, 15))
            sv = sel.__index__()
            cuts = [1 + sv % 4, 1 + (sv // 4) % 4]
            core.witness("wrap-one-value-per-line", cuts[0] == 1)
            start = base.index(TITLES["A"]) + 1
            new = []
            for row, cpos in zip(data, cuts):
                new.append(" ".join(row[:cpos]))
                rest = row[cpos:]
                # the remainder one value per line when the first line holds a single value, else on one line
                if rest:
                    if cpos == 1:
                        new += rest
                    else:
                        new.append(" ".join(rest))
            lines[start:] = new
        elif kind == "delimiter":
            start = base.index(TITLES["A"]) + 1
            sep = {"SPACE": " ", "TAB": "\t", "COMMA": ","}[dlm]
            dl = []
            for i, row in enumerate(data or DATA):
                if dlm == "TAB":
                    ln = row[0] + "\t" + row[1]  # the tab itself is the delimiter; no extra padding claimed
                else:
                    segs = [{"name": "p0", "lo": 0, "hi": pcap, "cls": lambda c: z.eq_c(c, 32)}, {"name": "t0", "lit": row[0]}, {"name": "p1", "lo": 0, "hi": pcap, "cls": lambda c: z.eq_c(c, 32)},
                            {"name": "sep", "lit": sep}, {"name": "p2", "lo": 0, "hi": pcap, "cls": lambda c: z.eq_c(c, 32)}, {"name": "t1", "lit": row[1]}, {"name": "p3", "lo": 0, "hi": pcap, "cls": lambda c: z.eq_c(c, 32)}]
                    ln = Layout("X%d" % i, segs).line
                lines[start + i] = ln
                dl.append(ln)
            inputs["data_lines"] = dl
        terms = [("\r\n" if crlf_c else "\n")] * len(lines)
        if not fnl_c:
            terms[-1] = ""
        ref = reference((kind if kind != "insert" else "base", wrap, dlm, len(base), bool(params.get("neg")), bool(params.get("v12"))), base, eng_c)
        las = ns.las.LASFile()
        try:
            las.read(SymFile(lines, terms), engine=eng_c)
        except Exception as e:
            core.oblige("transformed-file-is-read", False, info=repr(e)[:200])
            return {"observed": {"raised": type(e).__name__}}
        got = snapshot(las)
        core.oblige("same-result-as-the-base-file", same_snapshot(got, ref))
        return {"observed": {"raised": None, "data": got[1]}}

    return run


# ------------------------------------------------------------------------------ concrete oracle
def replay(i):
    import lasio

    kind, sel = i["kind"], i["sel"]
    eng = "numpy" if i["engine_numpy"] else "normal"
    wrap, dlm, data = "NO", None, None
    if kind == "rewrap":
        wrap, data = "YES", [["10", "2.5", "3", "4.5"], ["20", "-9", "7", "8.5"]]
    if kind == "delimiter":
        dlm = i["params"]["dlm"]
        if i["params"].get("neg"):
            data = DATA_NEG
    if kind == "insert-1row":
        data = [["10", "2.5"]]
    base = base_lines(wrap, dlm, data)
    if i["params"].get("v12"):
        base = [("VERS. 1.2 : v" if ln == "VERS. 2.0 : v" else ("COMP. company : ACME OIL" if ln == "COMP. ACME OIL : company" else ln)) for ln in base]
    lines = list(base)
    if kind == "pad-title":
        lines[base.index(TITLES[i["params"]["title"]])] = i["line"]
    elif kind in ("insert", "insert-1row"):
        lines.insert(sel // 3, i["inserted"])
    elif kind == "pad-header":
        it = HEADER_ITEMS[i["params"]["item"]]
        idx = base.index(header_line(it)) if it[1] != "WRAP" else base.index("WRAP. NO : w")
        lines[idx] = i["line"]
    elif kind in ("pad-data", "delimiter"):
        start = base.index(TITLES["A"]) + 1
        for k, ln in enumerate(i["data_lines"]):
            lines[start + k] = ln
    elif kind == "rewrap":
        cuts = [1 + sel % 4, 1 + (sel // 4) % 4]
        start = base.index(TITLES["A"]) + 1
        new = []
        for row, cpos in zip(data, cuts):
            new.append(" ".join(row[:cpos]))
            rest = row[cpos:]
            if rest:
                if cpos == 1:
                    new += rest
                else:
                    new.append(" ".join(rest))
        lines[start:] = new
    nl = "\r\n" if i["crlf"] else "\n"
    text = nl.join(lines) + (nl if i["final_newline"] else "")
    ref = reference((kind if kind != "insert" else "base", wrap, dlm, len(base)), base, eng)
    try:
        las = lasio.read(text, engine=eng)
    except Exception as e:
        return {"ok": False, "detail": "engine=%s raised %r on transformed file %r" % (eng, e, text), "observed": {"raised": type(e).__name__}}
    got = snapshot(las)
    ok = bool(same_snapshot(got, ref))
    return {"ok": ok, "detail": "ok" if ok else "engine=%s: transformed file %r reads as %r / %r, base file as %r / %r" % (eng, text, got[0], got[1], ref[0], ref[1]), "observed": {"raised": None, "data": got[1]}}


def validate():
    return symnp.validate_genfromtxt()
