"""Shared pieces of the writer checks (C03, C11, C12, C16): building a LASFile with a symbolic
header item of a fixed *shape* (field lengths fixed per task, every character symbolic - the
"shape case-split" of DESIGN.md §2.4), writing it with the real writer into an OutFile and
reading the written lines back with the real reader."""
import itertools
import numpy as np
from symlas import core, z
from symlas.stubs import SymFile, OutFile
from symlas.values import SymStr, SymInt, B, concat, fresh_int, fresh_bool
from checks.common import allc, printable, is_stripped, not_char, no_substr, last_char
from symlas.values import isws, isdigit

SECTIONS = {"V": "Version", "W": "Well", "C": "Curves", "P": "Parameter"}
COMPANIONS = {
    "narrow": ("K", "", "1", "k"),
    "wide": ("KLONGNAME", "UNITX", "a wide value 12", "a longer description"),
}


def shapes(cap, include_blank_mnemonic=True):
    rng = range(0, cap + 1)
    for lm, lu, lv, ld in itertools.product(rng, rng, rng, rng):
        if lm == 0 and not include_blank_mnemonic:
            continue
        yield (lm, lu, lv, ld)


def sym_field(name, n):
    return SymStr.fresh(name, n, fixed_len=n) if n else ""


def conformant_item(tag, shape, section):
    """four symbolic fields of the given lengths constrained to the LAS-conformant classes of C03"""
    A = core.assume
    lm, lu, lv, ld = shape
    m, u, v, d = sym_field(tag + "m", lm), sym_field(tag + "u", lu), sym_field(tag + "v", lv), sym_field(tag + "d", ld)
    for x in (m, u, v, d):
        if isinstance(x, SymStr):
            A(allc(x, printable))
            A(is_stripped(x))
    if isinstance(m, SymStr):
        A(allc(m, not_char(".", ":")))
        A(z.Not(z.in_set_c(m.chars[0], (126, 35))))  # a line starting with ~ or # is a title / comment
    if isinstance(u, SymStr):
        A(allc(u, lambda c: z.Not(isws(c))))
        A(allc(u, not_char(":")))  # the C03 class: interior colons in units are family F5 of C04
        A(no_substr(u, ".."))
        A(z.Not(allc(u, isdigit)))
        A(z.Not(z.eq_c(u.chars[0], 46)))
        A(z.Not(z.eq_c(u.chars[lu - 1], 46)))
        if lu >= 2:
            A(z.Not(z.Or(z.And(z.eq_c(u.chars[0], 91), z.eq_c(u.chars[lu - 1], 93)), z.And(z.eq_c(u.chars[0], 40), z.eq_c(u.chars[lu - 1], 41)))))
    if isinstance(v, SymStr):
        A(allc(v, not_char(":")))
        # a text value: starts with a letter (numeric literals are covered by the concrete numeric kinds)
        A(z.Or(z.in_range_c(v.chars[0], 65, 90), z.in_range_c(v.chars[0], 97, 122), z.in_range_c(v.chars[0], 0xC0, 0xFE)))
        if section == "C":
            A(no_substr(v, ".."))
    if isinstance(d, SymStr):
        A(allc(d, not_char(":")))
    return m, u, v, d


def base_las(ns, no_nan=False):
    las = ns.las.LASFile()
    las.append_curve("DEPT", np.array([1.0, 2.0]), unit="M", descr="depth")
    las.append_curve("GR", np.array([10.5, 11.5 if no_nan else np.nan]), unit="API", descr="gamma")
    las.well["COMP"].value = "ACME OIL"
    las.other = "some free text"
    return las


def add_items(ns, las, section, fields, companion, sym_first):
    HeaderItem, CurveItem = ns.items.HeaderItem, ns.items.CurveItem
    sec = las.sections[SECTIONS[section]]
    def mk(f, k):
        if section == "C":
            return CurveItem(f[0], f[1], f[2], f[3], data=np.array([100.0 + k, 200.0 + k]))
        return HeaderItem(f[0], f[1], f[2], f[3])
    comp = COMPANIONS[companion]
    order = [(fields, 0), (comp, 1)] if sym_first else [(comp, 1), (fields, 0)]
    for f, k in order:
        sec.append(mk(f, k))
    return sec


def write_lines(ns, las, **kw):
    out = OutFile(name="<written>")
    ns.writer.write(las, out, **kw)
    return out.lines()


def snapshot_sections(las):
    snap = {}
    for name, sec in las.sections.items():
        if isinstance(sec, (str, SymStr)):
            snap[name] = sec
        else:
            snap[name] = [(it.original_mnemonic, it.unit, it.value, it.descr) for it in list.__iter__(sec)]
    return snap


def num_or_none(x):
    """float(x) for numbers and numeric-looking concrete strings, else None"""
    import re

    if isinstance(x, bool):
        return None
    if isinstance(x, (int, float, np.integer, np.floating)):
        return float(x)
    if isinstance(x, str) and re.fullmatch(r"\s*[+-]?(\d+\.?\d*|\.\d+)([eE][+-]?\d+)?\s*", x.replace(",", ".", 1) if re.fullmatch(r"[+-]?\d+,\d+([eE][+-]?\d+)?", x) else x):
        return float(x.replace(",", "."))
    return None


def value_equal(a, b):
    """equality of two header values, numbers compared numerically (z3 Bool / bool)"""
    from symlas.symnum import SymNum

    if isinstance(a, SymNum) or isinstance(b, SymNum):
        return False  # symbolic text values are constrained to be non-numeric
    if isinstance(a, SymStr) or isinstance(b, SymStr):
        return SymStr.lift(a).eq_expr(b) if isinstance(a, (str, SymStr)) and isinstance(b, (str, SymStr)) else False
    na, nb = num_or_none(a), num_or_none(b)
    if na is not None or nb is not None:
        return na is not None and nb is not None and (na == nb or (na != na and nb != nb))
    return a == b


def text_equal(a, b):
    if isinstance(a, (str, SymStr)) and isinstance(b, (str, SymStr)):
        return SymStr.lift(a).eq_expr(b)
    return False


def case_map(m, mc):
    if mc == "upper":
        return m.upper()
    if mc == "lower":
        return m.lower()
    return m


def sections_equal(got, exp, mnemonic_case="preserve", skip=(("Well", "STRT"), ("Well", "STOP"), ("Well", "STEP")), ignore_unit_of=()):
    """list of (name, condition) obligations: got == exp section by section, item by item"""
    obl = []

    def keytext(k):
        return k.s if hasattr(k, "s") and not isinstance(k, str) else k

    gk, ek = [keytext(k) for k in got], [keytext(k) for k in exp]
    if all(isinstance(k, str) for k in gk + ek):
        obl.append(("same-section-keys", sorted(gk) == sorted(ek)))
        pairs = [(name, got.get(name), items) for name, items in exp.items()]
    else:
        # symbolic section titles (a written item line that reads back as a title): compare in file order
        obl.append(("same-section-keys", z.And([len(gk) == len(ek)] + [text_equal(a, b) for a, b in zip(gk, ek)])))
        pairs = [(str(keytext(ke)) if isinstance(keytext(ke), str) else "symtitle", gv, ev) for (ke, ev), (kg, gv) in zip(exp.items(), got.items())] if len(gk) == len(ek) else []
    for name, g, items in pairs:
        if isinstance(items, (str, SymStr)):
            obl.append(("section-%s-text" % name, text_equal(g, items)))
            continue
        if g is None or isinstance(g, (str, SymStr)) or len(g) != len(items):
            obl.append(("section-%s-item-count" % name, False))
            continue
        for k, ((gm, gu, gv, gd), (m, u, v, d)) in enumerate(zip(g, items)):
            tag = m if isinstance(m, str) else "sym"
            obl.append(("%s[%d]-mnemonic" % (name, k), text_equal(gm, case_map(m, mnemonic_case))))
            if (name, tag) in skip:
                continue
            obl.append(("%s[%d]-unit" % (name, k), text_equal(gu, u)))
            obl.append(("%s[%d]-value" % (name, k), value_equal(gv, v)))
            obl.append(("%s[%d]-descr" % (name, k), text_equal(gd, d)))
    return obl
