"""C13 - duplicate and blank mnemonics: unique session names, originals preserved.

Kernel: the real lasio.las_items (HeaderItem, SectionItems: append/insert/__delitem__/
__setitem__/set_item/assign_duplicate_suffixes/mnemonic_compare/useful_mnemonic) under
operation histories whose item names, positions and case-normalisation flag are solver
variables.  One task per (concrete) sequence of operation kinds.
"""
import itertools
from symlas import core, z
from symlas.driver import apply_exclusions
from symlas.values import SymStr, SymInt, B, fresh_int, fresh_bool, mkstr, concat
from checks.common import allc, cond_str

PROPERTY = "C13"
FUNCTIONS = [
    "lasio/las_items.py::HeaderItem.__init__",
    "lasio/las_items.py::HeaderItem.useful_mnemonic",
    "lasio/las_items.py::HeaderItem.__setattr__",
    "lasio/las_items.py::SectionItems.append",
    "lasio/las_items.py::SectionItems.insert",
    "lasio/las_items.py::SectionItems.__delitem__",
    "lasio/las_items.py::SectionItems.__setitem__",
    "lasio/las_items.py::SectionItems.set_item",
    "lasio/las_items.py::SectionItems.assign_duplicate_suffixes",
    "lasio/las_items.py::SectionItems.mnemonic_compare",
]
OPS = ["append", "insert", "del_index", "del_key", "replace"]
ALPHABET = "AaB:12 "
BOUNDS = {
    "quick": {"history_len": 3, "name_cap": 3, "alphabet": ALPHABET, "ops": OPS, "task_budget_s": 600},
    "thorough": {"history_len": 4, "name_cap": 3, "alphabet": ALPHABET, "ops": OPS, "task_budget_s": 3000},
}
ASSUMPTIONS = [
    "histories up to the stated length over append / insert(i) / delete by index / delete by session name / replace by session name",
    "names: every string up to 3 characters over the alphabet 'AaB:12 ' (case variants, blanks, suffix-like names inside)",
    "numbering is required for the group of the inserted name after each insertion - append, insert, or the item put in by a replacement - (the minimal reading of the statement); other items must keep their session name (frame)",
]
WITNESS_TARGETS = ["suffix-assigned", "blank-becomes-UNKNOWN", "case-variants-grouped", "unique-name-untouched"]


def _useful_ref(name):
    """reference: 'UNKNOWN' for blank names (no fork)"""
    name = SymStr.lift(name)
    blank = SymStr.lift(name.strip()).eq_expr("")
    return cond_str(blank, "UNKNOWN", name), blank


def _cmp(a, b, transforms):
    a, b = SymStr.lift(a), SymStr.lift(b)
    return z.ite_b(transforms, SymStr.lift(a.upper()).eq_expr(b.upper()), a.eq_expr(b))


def _suffix_like_sym(i):
    """some name equals another name's useful mnemonic + ':' + digit (known finding class)"""
    names = i["names"]
    tr = i["transforms"].e if hasattr(i["transforms"], "e") else i["transforms"]
    cs = []
    for a in range(len(names)):
        ua, _ = _useful_ref(names[a])
        for b in range(len(names)):
            if a == b:
                continue
            ub, _ = _useful_ref(names[b])
            ub = SymStr.lift(ub)
            for d in "123456789":
                cs.append(_cmp(ua, concat([ub, ":" + d]), tr))
    return z.Or(cs)


def _suffix_like_conc(i):
    names = i["names"]
    tr = i["transforms"]

    def useful(n):
        return "UNKNOWN" if n.strip() == "" else n

    def norm(x):
        return x.upper() if tr else x

    for a in range(len(names)):
        for b in range(len(names)):
            if a != b:
                for d in "123456789":
                    if norm(useful(names[a])) == norm(useful(names[b]) + ":" + d):
                        return True
    return False


EXCLUSIONS = {"name_equals_generated_suffix_of_another": (_suffix_like_sym, _suffix_like_conc)}


def tasks(tier):
    b = BOUNDS[tier]
    out = []
    for k in range(1, b["history_len"] + 1):
        if tier == "thorough" and k < b["history_len"] - 1:
            continue
        for seq in itertools.product(range(len(OPS)), repeat=k):
            # a history must keep the section non-empty for delete / replace steps
            size = 0
            ok = True
            for o in seq:
                if OPS[o] in ("append", "insert"):
                    size += 1
                elif OPS[o] in ("del_index", "del_key"):
                    if size == 0:
                        ok = False
                        break
                    size -= 1
                else:
                    if size == 0:
                        ok = False
                        break
            if ok and (k == b["history_len"] or OPS[seq[-1]] in ("append", "insert", "replace")):
                out.append({"name": "-".join(OPS[o] for o in seq), "params": {"seq": [OPS[o] for o in seq], "cap": b["name_cap"]}, "weight": k})
    return out


def harness(ns, params):
    seq, cap = params["seq"], params["cap"]
    HeaderItem, SectionItems = ns.items.HeaderItem, ns.items.SectionItems
    codes = tuple(ord(c) for c in ALPHABET)

    def run():
        A = core.assume
        tr = fresh_bool("transforms")
        names, idxs = [], []
        for t in range(len(seq)):
            nm = SymStr.fresh("n%d" % t, cap)
            A(allc(nm, lambda c: z.in_set_c(c, codes)))
            names.append(nm)
        inputs = {"seq": seq, "names": names, "idxs": idxs, "transforms": tr}
        c = core.ctx()
        c.inputs = inputs
        apply_exclusions(inputs)
        s = SectionItems()
        trz = bool(tr)
        if trz:
            s.mnemonic_transforms = True
        given = []  # (item, given name) for every item ever created
        for t, op in enumerate(seq):
            before = [(it, it.mnemonic) for it in s]
            inserted = None
            n = len(s)
            if op == "append":
                inserted = HeaderItem(names[t])
                s.append(inserted)
                idxs.append(0)
            elif op == "insert":
                i = fresh_int("i%d" % t, 0, n)
                idxs.append(i)
                inserted = HeaderItem(names[t])
                s.insert(i, inserted)
            elif op == "del_index":
                i = fresh_int("i%d" % t, 0, n - 1)
                idxs.append(i)
                del s[i]
            elif op == "del_key":
                i = fresh_int("i%d" % t, 0, n - 1).__index__()
                idxs.append(i)
                del s[list.__getitem__(s, i).mnemonic]
            elif op == "replace":
                i = fresh_int("i%d" % t, 0, n - 1).__index__()
                idxs.append(i)
                inserted = HeaderItem(names[t])
                s[list.__getitem__(s, i).mnemonic] = inserted
            if inserted is not None:
                given.append((inserted, names[t]))
            items = list(list.__iter__(s))
            sess = [SymStr.lift(it.mnemonic) for it in items]
            obl = []
            OB = lambda n, e: obl.append((n, e))
            # (a) session mnemonics pairwise distinct (ignoring case when the section is case-normalised)
            for a in range(len(items)):
                for b_ in range(a + 1, len(items)):
                    OB("distinct@%d" % t, z.Not(_cmp(sess[a], sess[b_], trz)))
            # (e) originals never altered by disambiguation
            for it, nm in given:
                OB("original-kept@%d" % t, SymStr.lift(it.original_mnemonic).eq_expr(nm))
            if inserted is not None:
                uref = []
                for it in items:
                    u, blank = _useful_ref(it.original_mnemonic)
                    uref.append(SymStr.lift(u))
                    core.witness("blank-becomes-UNKNOWN", blank)
                ui = uref[[k for k, it in enumerate(items) if it is inserted][0]]
                member = [_cmp(u, ui, trz) for u in uref]
                total = 0
                for mb in member:
                    total = z.add(total, z.ite_i(mb, 1, 0))
                rank = 0
                for k, it in enumerate(items):
                    rank_k = z.add(rank, 1)
                    # expected session name of a group member: useful + ':' + rank
                    digit = SymStr([48 + rank_k if not z.is_sym(rank_k) else z3_low8(rank_k) + 48], 1)
                    exp_multi = concat([uref[k], ":", digit])
                    good = z.ite_b(z.eq_i(total, 1), sess[k].eq_expr(uref[k]), sess[k].eq_expr(exp_multi))
                    OB("numbered@%d" % t, z.Implies(member[k], good))
                    core.witness("suffix-assigned", z.And(member[k], z.gt(total, 1)))
                    core.witness("unique-name-untouched", z.And(member[k], z.eq_i(total, 1)))
                    if k:
                        core.witness("case-variants-grouped", z.And(member[k], member[0], z.Not(uref[k].eq_expr(uref[0]))))
                    rank = z.add(rank, z.ite_i(member[k], 1, 0))
                # frame: items outside the inserted name's group keep their session name
                old = {id(it): m for it, m in before}
                for k, it in enumerate(items):
                    if id(it) in old:
                        OB("frame@%d" % t, z.Or(member[k], sess[k].eq_expr(old[id(it)])))
            core.oblige_all(obl)
        keys = [it.mnemonic for it in list.__iter__(s)]
        return {"observed": {"keys": keys, "originals": [it.original_mnemonic for it in list.__iter__(s)]}}

    return run


def z3_low8(e):
    import z3

    return z3.Extract(7, 0, e)


# ------------------------------------------------------------------------------ concrete oracle
def replay(i):
    import lasio

    seq, names, idxs, tr = i["seq"], i["names"], i["idxs"], i["transforms"]
    seq = seq[: len(idxs)]  # a counterexample found at step t only fixes the first t+1 steps
    s = lasio.SectionItems()
    if tr:
        s.mnemonic_transforms = True
    given = []

    def useful(n):
        return "UNKNOWN" if n.strip() == "" else n

    def norm(x):
        return x.upper() if tr else x

    problems = []
    for t, op in enumerate(seq):
        before = {id(it): it.mnemonic for it in s}
        inserted = None
        if op == "append":
            inserted = lasio.HeaderItem(names[t])
            s.append(inserted)
        elif op == "insert":
            inserted = lasio.HeaderItem(names[t])
            s.insert(idxs[t], inserted)
        elif op == "del_index":
            del s[idxs[t]]
        elif op == "del_key":
            del s[list.__getitem__(s, idxs[t]).mnemonic]
        elif op == "replace":
            inserted = lasio.HeaderItem(names[t])
            s[list.__getitem__(s, idxs[t]).mnemonic] = inserted
        if inserted is not None:
            given.append((inserted, names[t]))
        items = list(list.__iter__(s))
        sess = [it.mnemonic for it in items]
        if len(set(norm(x) for x in sess)) != len(sess):
            problems.append("step %d (%s): session mnemonics not distinct: %r" % (t, op, sess))
        for it, nm in given:
            if it.original_mnemonic != nm:
                problems.append("step %d: original mnemonic %r changed to %r" % (t, nm, it.original_mnemonic))
        if inserted is not None:
            ui = norm(useful(inserted.original_mnemonic))
            grp = [k for k, it in enumerate(items) if norm(useful(it.original_mnemonic)) == ui]
            for r, k in enumerate(grp):
                want = useful(items[k].original_mnemonic) if len(grp) == 1 else "%s:%d" % (useful(items[k].original_mnemonic), r + 1)
                if sess[k] != want:
                    problems.append("step %d (%s %r): item %d has session name %r, expected %r (keys %r)" % (t, op, names[t], k, sess[k], want, sess))
            for k, it in enumerate(items):
                if k not in grp and id(it) in before and before[id(it)] != sess[k]:
                    problems.append("step %d: unrelated item renamed %r -> %r" % (t, before[id(it)], sess[k]))
    obs = {"keys": [it.mnemonic for it in list.__iter__(s)], "originals": [it.original_mnemonic for it in list.__iter__(s)]}
    return {"ok": not problems, "detail": "; ".join(problems) or "ok: %r" % obs, "observed": obs}
