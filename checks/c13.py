"""C13 - duplicate and blank mnemonics: unique session names, originals preserved.

Kernel: the real lasio.las_items (HeaderItem, SectionItems: append/insert/__delitem__/
__setitem__/set_item/assign_duplicate_suffixes/mnemonic_compare/useful_mnemonic) under
operation histories whose item names, positions and case-normalisation flag are solver
variables.  One task per (concrete) sequence of operation kinds.
"""
import itertools
from symlas import core, z
from symlas.driver import apply_exclusions
from symlas.values import SymStr, SymInt, B, fresh_int, fresh_bool, mkstr, concat
from checks.common import allc, cond_str, printable, not_char
from symlas.stubs import SymFile, OutFile
import numpy as np
from symlas.values import isws

PROPERTY = "C13"
FUNCTIONS = [
    "lasio/reader.py::parse_header_items_section",
    "lasio/las.py::LASFile.read",
    "lasio/writer.py::write",
    "lasio/las_items.py::HeaderItem.__init__",
    "lasio/las_items.py::HeaderItem.useful_mnemonic",
    "lasio/las_items.py::HeaderItem.__setattr__",
    "lasio/las_items.py::SectionItems.append",
    "lasio/las_items.py::SectionItems.insert",
    "lasio/las_items.py::SectionItems.__delitem__",
    "lasio/las_items.py::SectionItems.__setitem__",
    "lasio/las_items.py::SectionItems.set_item",
    "lasio/las_items.py::SectionItems.assign_duplicate_suffixes",
    "lasio/las_items.py::SectionItems.mnemonic_compare",
]
OPS = ["append", "insert", "del_index", "del_key", "replace"]
ALPHABET = "AaB:12 "
BOUNDS = {
    "quick": {"history_len": 3, "name_cap": 3, "alphabet": ALPHABET, "ops": OPS, "file_items": 3, "file_name_len_cap": 2, "task_budget_s": 600},
    "thorough": {"history_len": 4, "name_cap": 3, "alphabet": ALPHABET, "ops": OPS, "file_items": 3, "file_name_len_cap": 3, "task_budget_s": 3000},
}
ASSUMPTIONS = [
    "histories up to the stated length over append / insert(i) / delete by index / delete by session name / replace by session name",
    "names: every string up to 3 characters over the alphabet 'AaB:12 ' (case variants, blanks, suffix-like names inside)",
    "file family: a LAS text whose ~Parameter, ~Curve or ~Version section holds three lines with symbolic mnemonics (lengths 0..cap by exhaustive case-split, every character symbolic: printable, no blank, '.', ':', not starting with '~'/'#'), read with a symbolic mnemonic_case, written with the real writer and read again with the same option",
    "numbering is required for the group of the inserted name after each insertion - append, insert, or the item put in by a replacement - (the minimal reading of the statement); other items must keep their session name (frame)",
]
WITNESS_TARGETS = ["suffix-assigned", "blank-becomes-UNKNOWN", "case-variants-grouped", "unique-name-untouched", "file-with-blank-mnemonic-read-lower-case", "file-with-duplicates-round-trip"]


def _useful_ref(name):
    """reference: 'UNKNOWN' for blank names (no fork)"""
    name = SymStr.lift(name)
    blank = SymStr.lift(name.strip()).eq_expr("")
    return cond_str(blank, "UNKNOWN", name), blank


def _cmp(a, b, transforms):
    a, b = SymStr.lift(a), SymStr.lift(b)
    return z.ite_b(transforms, SymStr.lift(a.upper()).eq_expr(b.upper()), a.eq_expr(b))


def _suffix_like_sym(i):
    """some name equals another name's useful mnemonic + ':' + digit (known finding class)"""
    if "file" in i:
        return False  # file mnemonics contain no ':'
    names = i["names"]
    tr = i["transforms"].e if hasattr(i["transforms"], "e") else i["transforms"]
    cs = []
    for a in range(len(names)):
        ua, _ = _useful_ref(names[a])
        for b in range(len(names)):
            if a == b:
                continue
            ub, _ = _useful_ref(names[b])
            ub = SymStr.lift(ub)
            for d in "123456789":
                cs.append(_cmp(ua, concat([ub, ":" + d]), tr))
    return z.Or(cs)


def _suffix_like_conc(i):
    if "file" in i:
        return False
    names = i["names"]
    tr = i["transforms"]

    def useful(n):
        return "UNKNOWN" if n.strip() == "" else n

    def norm(x):
        return x.upper() if tr else x

    for a in range(len(names)):
        for b in range(len(names)):
            if a != b:
                for d in "123456789":
                    if norm(useful(names[a])) == norm(useful(names[b]) + ":" + d):
                        return True
    return False


EXCLUSIONS = {"name_equals_generated_suffix_of_another": (_suffix_like_sym, _suffix_like_conc)}


def tasks(tier):
    b = BOUNDS[tier]
    out = []
    for k in range(1, b["history_len"] + 1):
        if tier == "thorough" and k < b["history_len"] - 1:
            continue
        for seq in itertools.product(range(len(OPS)), repeat=k):
            # a history must keep the section non-empty for delete / replace steps
            size = 0
            ok = True
            for o in seq:
                if OPS[o] in ("append", "insert"):
                    size += 1
                elif OPS[o] in ("del_index", "del_key"):
                    if size == 0:
                        ok = False
                        break
                    size -= 1
                else:
                    if size == 0:
                        ok = False
                        break
            if ok and (k == b["history_len"] or OPS[seq[-1]] in ("append", "insert", "replace")):
                out.append({"name": "-".join(OPS[o] for o in seq), "params": {"seq": [OPS[o] for o in seq], "cap": b["name_cap"]}, "weight": k})
    fc = b["file_name_len_cap"]
    for sec in ("P", "C", "V"):
        for lens in itertools.product(range(fc + 1), repeat=b["file_items"]):
            if tier == "thorough" and max(lens) < 2 and sec == "P":
                continue
            if tier == "thorough" and sorted(lens) != list(lens):
                continue  # the order of the lengths is covered at cap 1 (quick); thorough takes sorted length vectors
            out.append({"name": "file/%s/%s" % (sec, "".join(map(str, lens))), "params": {"file": sec, "lens": list(lens)}, "weight": 2})
    return out


def file_lines(sec, names):
    """a LAS text (list of lines) whose section `sec` holds one line per name"""
    def ln(k, nm):
        tail = ".U%d  : c%d" % (k, k) if sec == "C" else ".U%d  %d : p%d" % (k, k + 5, k)
        return concat([nm, tail]) if isinstance(nm, SymStr) else nm + tail
    ver = ["~Version", "VERS. 2.0 : v", "WRAP. NO : w"]
    rest = ["~Well", "STRT.M 1 : s", "STOP.M 2 : e", "STEP.M 1 : i", "NULL. -999.25 : n", "~Curve", "DEPT.M : d"]
    if sec == "V":
        return ver + [ln(k, nm) for k, nm in enumerate(names)] + rest + ["~Parameter", "PP.u 1 : pp", "~A", "1", "2"]
    head = ver + rest
    if sec == "C":
        return head + [ln(k, nm) for k, nm in enumerate(names)] + ["~Parameter", "PP.u 1 : pp", "~A"] + ["%d %s" % (r + 1, " ".join(str(10 * (k + 1) + r) for k in range(len(names)))) for r in range(2)]
    return head + ["~Parameter"] + [ln(k, nm) for k, nm in enumerate(names)] + ["~A", "1", "2"]


SKIP = {"P": 0, "C": 1, "V": 2}  # concrete items in front of the symbolic ones


def expected_session_names(originals, transforms):
    """reference on concrete names: blank -> UNKNOWN; groups (ignoring case when `transforms`) of size > 1 numbered in order"""
    useful = ["UNKNOWN" if n.strip() == "" else n for n in originals]
    norm = (lambda x: x.upper()) if transforms else (lambda x: x)
    out, seen = [], {}
    for u in useful:
        g = norm(u)
        if sum(1 for w in useful if norm(w) == g) > 1:
            seen[g] = seen.get(g, 0) + 1
            out.append("%s:%d" % (u, seen[g]))
        else:
            out.append(u)
    return out


def h_file(ns, params):
    sec, lens = params["file"], params["lens"]
    secname = {"P": "Parameter", "C": "Curves", "V": "Version"}[sec]

    def run():
        A = core.assume
        core.OPTS["concretize"] = True
        names = []
        for k, n in enumerate(lens):
            if n == 0:
                names.append("")
                continue
            nm = SymStr.fresh("m%d" % k, n, fixed_len=n)
            A(allc(nm, lambda c: z.And(printable(c), z.Not(isws(c)), not_char(".", ":", " ")(c))))  # isws: also U+00A0, which str.strip() removes
            A(z.Not(z.in_set_c(nm.chars[0], (126, 35))))
            if sec == "V":
                A(z.Not(SymStr.lift(nm.upper()).eq_expr("DLM")))  # a DLM item in ~Version declares the data delimiter
            names.append(nm)
        mc = fresh_int("mnemonic_case", 0, 2)
        inputs = {"file": sec, "names": names, "mnemonic_case": mc}
        c = core.ctx()
        c.inputs = inputs
        apply_exclusions(inputs)
        mcase = ["preserve", "upper", "lower"][mc.__index__()]
        trz = mcase != "preserve"
        cm = {"preserve": lambda x: x, "upper": lambda x: x.upper(), "lower": lambda x: x.lower()}[mcase]
        core.witness("file-with-blank-mnemonic-read-lower-case", mcase == "lower" and 0 in lens)
        lines = file_lines(sec, names)
        las = ns.las.LASFile()
        try:
            las.read(SymFile(lines), mnemonic_case=mcase, engine="normal")
        except Exception as e:
            core.oblige("file-is-readable", False, info=repr(e)[:200])
            return {"observed": {"raised": "read:" + type(e).__name__}}
        section = las.sections[secname]
        items = list(list.__iter__(section))[SKIP[sec]:]
        if len(items) != len(names):
            core.oblige("one-item-per-line", False, info="%d items" % len(items))
            return {"observed": {"raised": None, "n": len(items)}}
        want_orig = [SymStr.lift(cm(SymStr.lift(nm))) for nm in names]
        useful = [("UNKNOWN" if n == 0 else want_orig[k]) for k, n in enumerate(lens)]
        # partition of the names into groups: the comparisons fork the path (at most a handful of partitions)
        grp = list(range(len(names)))
        for a in range(len(names)):
            for b_ in range(a):
                if grp[b_] == b_ and core.decide(_cmp(useful[a], useful[b_], trz)):
                    grp[a] = b_
                    break
        sizes = {g: grp.count(g) for g in grp}
        core.witness("file-with-duplicates-round-trip", max(sizes.values()) > 1)
        want_sess, seen = [], {}
        for k, g in enumerate(grp):
            if sizes[g] > 1:
                seen[g] = seen.get(g, 0) + 1
                want_sess.append(concat([useful[k], ":%d" % seen[g]]))
            else:
                want_sess.append(useful[k])
        obl = []
        for k, it in enumerate(items):
            obl.append(("file-original-is-the-case-mapped-text[%d]" % k, SymStr.lift(it.original_mnemonic).eq_expr(want_orig[k])))
            obl.append(("file-session-name[%d]" % k, SymStr.lift(it.mnemonic).eq_expr(want_sess[k])))
        core.oblige_all(obl)
        obl = []
        for k, it in enumerate(items):
            try:
                obl.append(("file-item-access-resolves-to-own-item[%d]" % k, section[it.mnemonic] is it))
                if sec == "C":
                    obl.append(("file-LASFile-access-resolves-to-own-curve[%d]" % k, las[it.mnemonic] is it.data))
            except Exception as e:
                obl.append(("file-item-access-resolves-to-own-item[%d]" % k, False))
        core.oblige_all(obl)
        # round trip: what write() emits is the original mnemonic, and the same session names come back
        try:
            out = OutFile(name="<written>")
            ns.writer.write(las, out)
            las2 = ns.las.LASFile()
            las2.read(SymFile(out.lines()), mnemonic_case=mcase, engine="normal")
        except Exception as e:
            core.oblige("file-round-trip-does-not-raise", False, info=repr(e)[:200])
            return {"observed": {"raised": "roundtrip:" + type(e).__name__}}
        items2 = list(list.__iter__(las2.sections[secname]))[SKIP[sec]:]
        obl = [("file-round-trip-same-number-of-items", len(items2) == len(items))]
        # the concrete sections come back as they were read (same count, names, units, values, descriptions)
        for other in ("Version", "Well", "Curves", "Parameter"):
            if other != secname:
                a_ = [(it.original_mnemonic, it.mnemonic, it.unit, it.descr) for it in list.__iter__(las.sections[other])]
                b__ = [(it.original_mnemonic, it.mnemonic, it.unit, it.descr) for it in list.__iter__(las2.sections[other])]
                obl.append(("file-round-trip-section-%s" % other, a_ == b__ or (other == "Version" and [x[:2] for x in a_] == [x[:2] for x in b__])))
        if len(items2) == len(items):
            for k, (a, b_) in enumerate(zip(items, items2)):
                obl.append(("file-round-trip-original[%d]" % k, SymStr.lift(b_.original_mnemonic).eq_expr(a.original_mnemonic)))
                obl.append(("file-round-trip-session-name[%d]" % k, SymStr.lift(b_.mnemonic).eq_expr(a.mnemonic)))
        core.oblige_all(obl)
        return {"observed": {"raised": None, "n": len(items)}}

    return run


def replay_file(i):
    import io
    import lasio

    sec, names = i["file"], i["names"]
    secname = {"P": "Parameter", "C": "Curves", "V": "Version"}[sec]
    mcase = ["preserve", "upper", "lower"][i["mnemonic_case"]]
    cm = {"preserve": lambda x: x, "upper": lambda x: x.upper(), "lower": lambda x: x.lower()}[mcase]
    text = "\n".join(file_lines(sec, names)) + "\n"
    try:
        las = lasio.read(text, mnemonic_case=mcase, engine="normal")
    except Exception as e:
        return {"ok": False, "detail": "read raised %r for %r" % (e, text), "observed": {"raised": "read:" + type(e).__name__}}
    section = las.sections[secname]
    items = list(section)[SKIP[sec]:]
    problems = []
    if len(items) != len(names):
        return {"ok": False, "detail": "%d items for %d lines: %r" % (len(items), len(names), section), "observed": {"raised": None, "n": len(items)}}
    want_orig = [cm(n) for n in names]
    want_sess = expected_session_names(want_orig, mcase != "preserve")
    got_orig, got_sess = [it.original_mnemonic for it in items], [it.mnemonic for it in items]
    if got_orig != want_orig:
        problems.append("original mnemonics %r, file has %r (mnemonic_case=%s)" % (got_orig, names, mcase))
    if got_sess != want_sess:
        problems.append("session names %r, expected %r (mnemonic_case=%s)" % (got_sess, want_sess, mcase))
    for it in items:
        try:
            if section[it.mnemonic] is not it or (sec == "C" and las[it.mnemonic] is not it.data):
                problems.append("access by %r resolves to another item" % (it.mnemonic,))
        except Exception as e:
            problems.append("access by %r raises %r" % (it.mnemonic, e))
    try:
        out = io.StringIO()
        las.write(out)
        las2 = lasio.read(out.getvalue(), mnemonic_case=mcase, engine="normal")
    except Exception as e:
        return {"ok": False, "detail": "round trip raised %r" % (e,), "observed": {"raised": "roundtrip:" + type(e).__name__}}
    sec2 = las2.sections[secname]
    items2 = list(sec2)[SKIP[sec]:]
    for other in ("Version", "Well", "Curves", "Parameter"):
        if other != secname:
            a_ = [(it.original_mnemonic, it.mnemonic, it.unit, it.descr) for it in las.sections[other]]
            b__ = [(it.original_mnemonic, it.mnemonic, it.unit, it.descr) for it in las2.sections[other]]
            if not (a_ == b__ or (other == "Version" and [x[:2] for x in a_] == [x[:2] for x in b__])):
                problems.append("section %s after write->read: %r, before %r" % (other, b__, a_))
    if [it.original_mnemonic for it in items2] != got_orig or [it.mnemonic for it in items2] != got_sess:
        problems.append("after write->read: originals %r sessions %r; before %r %r; written:\n%s" % ([it.original_mnemonic for it in items2], [it.mnemonic for it in items2], got_orig, got_sess, out.getvalue()[:600]))
    return {"ok": not problems, "detail": "; ".join(problems) or "ok", "observed": {"raised": None, "n": len(items)}}


def harness(ns, params):
    if "file" in params:
        return h_file(ns, params)
    seq, cap = params["seq"], params["cap"]
    HeaderItem, SectionItems = ns.items.HeaderItem, ns.items.SectionItems
    codes = tuple(ord(c) for c in ALPHABET)

    def run():
        A = core.assume
        tr = fresh_bool("transforms")
        names, idxs = [], []
        for t in range(len(seq)):
            nm = SymStr.fresh("n%d" % t, cap)
            A(allc(nm, lambda c: z.in_set_c(c, codes)))
            names.append(nm)
        inputs = {"seq": seq, "names": names, "idxs": idxs, "transforms": tr}
        c = core.ctx()
        c.inputs = inputs
        apply_exclusions(inputs)
        s = SectionItems()
        trz = bool(tr)
        if trz:
            s.mnemonic_transforms = True
        given = []  # (item, given name) for every item ever created
        for t, op in enumerate(seq):
            before = [(it, it.mnemonic) for it in s]
            inserted = None
            n = len(s)
            if op == "append":
                inserted = HeaderItem(names[t])
                s.append(inserted)
                idxs.append(0)
            elif op == "insert":
                i = fresh_int("i%d" % t, 0, n)
                idxs.append(i)
                inserted = HeaderItem(names[t])
                s.insert(i, inserted)
            elif op == "del_index":
                i = fresh_int("i%d" % t, 0, n - 1)
                idxs.append(i)
                del s[i]
            elif op == "del_key":
                i = fresh_int("i%d" % t, 0, n - 1).__index__()
                idxs.append(i)
                del s[list.__getitem__(s, i).mnemonic]
            elif op == "replace":
                i = fresh_int("i%d" % t, 0, n - 1).__index__()
                idxs.append(i)
                inserted = HeaderItem(names[t])
                s[list.__getitem__(s, i).mnemonic] = inserted
            if inserted is not None:
                given.append((inserted, names[t]))
            items = list(list.__iter__(s))
            sess = [SymStr.lift(it.mnemonic) for it in items]
            obl = []
            OB = lambda n, e: obl.append((n, e))
            # (a) session mnemonics pairwise distinct (ignoring case when the section is case-normalised)
            for a in range(len(items)):
                for b_ in range(a + 1, len(items)):
                    OB("distinct@%d" % t, z.Not(_cmp(sess[a], sess[b_], trz)))
            # (e) originals never altered by disambiguation
            for it, nm in given:
                OB("original-kept@%d" % t, SymStr.lift(it.original_mnemonic).eq_expr(nm))
            if inserted is not None:
                uref = []
                for it in items:
                    u, blank = _useful_ref(it.original_mnemonic)
                    uref.append(SymStr.lift(u))
                    core.witness("blank-becomes-UNKNOWN", blank)
                ui = uref[[k for k, it in enumerate(items) if it is inserted][0]]
                member = [_cmp(u, ui, trz) for u in uref]
                total = 0
                for mb in member:
                    total = z.add(total, z.ite_i(mb, 1, 0))
                rank = 0
                for k, it in enumerate(items):
                    rank_k = z.add(rank, 1)
                    # expected session name of a group member: useful + ':' + rank
                    digit = SymStr([48 + rank_k if not z.is_sym(rank_k) else z3_low8(rank_k) + 48], 1)
                    exp_multi = concat([uref[k], ":", digit])
                    good = z.ite_b(z.eq_i(total, 1), sess[k].eq_expr(uref[k]), sess[k].eq_expr(exp_multi))
                    OB("numbered@%d" % t, z.Implies(member[k], good))
                    core.witness("suffix-assigned", z.And(member[k], z.gt(total, 1)))
                    core.witness("unique-name-untouched", z.And(member[k], z.eq_i(total, 1)))
                    if k:
                        core.witness("case-variants-grouped", z.And(member[k], member[0], z.Not(uref[k].eq_expr(uref[0]))))
                    rank = z.add(rank, z.ite_i(member[k], 1, 0))
                # frame: items outside the inserted name's group keep their session name
                old = {id(it): m for it, m in before}
                for k, it in enumerate(items):
                    if id(it) in old:
                        OB("frame@%d" % t, z.Or(member[k], sess[k].eq_expr(old[id(it)])))
            core.oblige_all(obl)
        keys = [it.mnemonic for it in list.__iter__(s)]
        return {"observed": {"keys": keys, "originals": [it.original_mnemonic for it in list.__iter__(s)]}}

    return run


def z3_low8(e):
    import z3

    return z3.Extract(7, 0, e)


# ------------------------------------------------------------------------------ concrete oracle
def replay(i):
    import lasio

    if "file" in i:
        return replay_file(i)
    seq, names, idxs, tr = i["seq"], i["names"], i["idxs"], i["transforms"]
    seq = seq[: len(idxs)]  # a counterexample found at step t only fixes the first t+1 steps
    s = lasio.SectionItems()
    if tr:
        s.mnemonic_transforms = True
    given = []

    def useful(n):
        return "UNKNOWN" if n.strip() == "" else n

    def norm(x):
        return x.upper() if tr else x

    problems = []
    for t, op in enumerate(seq):
        before = {id(it): it.mnemonic for it in s}
        inserted = None
        if op == "append":
            inserted = lasio.HeaderItem(names[t])
            s.append(inserted)
        elif op == "insert":
            inserted = lasio.HeaderItem(names[t])
            s.insert(idxs[t], inserted)
        elif op == "del_index":
            del s[idxs[t]]
        elif op == "del_key":
            del s[list.__getitem__(s, idxs[t]).mnemonic]
        elif op == "replace":
            inserted = lasio.HeaderItem(names[t])
            s[list.__getitem__(s, idxs[t]).mnemonic] = inserted
        if inserted is not None:
            given.append((inserted, names[t]))
        items = list(list.__iter__(s))
        sess = [it.mnemonic for it in items]
        if len(set(norm(x) for x in sess)) != len(sess):
            problems.append("step %d (%s): session mnemonics not distinct: %r" % (t, op, sess))
        for it, nm in given:
            if it.original_mnemonic != nm:
                problems.append("step %d: original mnemonic %r changed to %r" % (t, nm, it.original_mnemonic))
        if inserted is not None:
            ui = norm(useful(inserted.original_mnemonic))
            grp = [k for k, it in enumerate(items) if norm(useful(it.original_mnemonic)) == ui]
            for r, k in enumerate(grp):
                want = useful(items[k].original_mnemonic) if len(grp) == 1 else "%s:%d" % (useful(items[k].original_mnemonic), r + 1)
                if sess[k] != want:
                    problems.append("step %d (%s %r): item %d has session name %r, expected %r (keys %r)" % (t, op, names[t], k, sess[k], want, sess))
            for k, it in enumerate(items):
                if k not in grp and id(it) in before and before[id(it)] != sess[k]:
                    problems.append("step %d: unrelated item renamed %r -> %r" % (t, before[id(it)], sess[k]))
    obs = {"keys": [it.mnemonic for it in list.__iter__(s)], "originals": [it.original_mnemonic for it in list.__iter__(s)]}
    return {"ok": not problems, "detail": "; ".join(problems) or "ok: %r" % obs, "observed": obs}
