"""C08 - header values become numbers only when they are numeric literals.

Kernel: the real SectionParser (constructor, __call__, metadata/params/curves, num,
strip_brackets) on a symbolic value text and a symbolic mnemonic.  numpy's text->number
conversion is a contract stub (symlas/symnum.py: accepted grammar = Python int()/float(),
validated differentially on every run); what lasio does around it is executed for real.
"""
from symlas import core, z, symre, symnum
from symlas.driver import apply_exclusions
from symlas.values import SymStr, mkbool, B
from checks.common import allc, printable, is_stripped

PROPERTY = "C08"
FUNCTIONS = [
    "lasio/reader.py::SectionParser.__init__",
    "lasio/reader.py::SectionParser.__call__",
    "lasio/reader.py::SectionParser.num",
    "lasio/reader.py::SectionParser.metadata",
    "lasio/reader.py::SectionParser.params",
    "lasio/reader.py::SectionParser.curves",
    "lasio/reader.py::SectionParser.strip_brackets",
]
TITLES = ["~Version", "~Well", "~Parameter", "~Curves", "~Xyz"]
BOUNDS = {
    "quick": {"value_cap": 5, "mnemonic_cap": 3, "titles": TITLES, "versions": [1.2, 2.0], "task_budget_s": 600,
              "alphabet": "printable Latin-1, value equal to its own strip (as read_header_line delivers it)"},
    "thorough": {"value_cap": 6, "mnemonic_cap": 3, "titles": TITLES, "versions": [1.2, 2.0], "task_budget_s": 3300,
                 "alphabet": "printable Latin-1, value equal to its own strip"},
}
ASSUMPTIONS = [
    "np.int64(text)/np.float64(text) accept exactly Python's int()/float() grammar and return the number the text denotes (contract stub, validated against numpy on ~70000 short strings each run)",
    "finite <=> |value| < 2**1024*(1-2**-54): decimal-exponent model validated on the same strings plus boundary literals",
    "int64 range: literals of 18-20 digits are covered by fixed-shape tasks (all digits symbolic) with an exact range model; longer ones are outside the bound",
    "a ',' counts as decimal mark only between two digits (lasio's documented comma-decimal-mark policy)",
    "non-Latin-1 characters (e.g. Arabic-Indic digits) are outside the alphabet bound",
]
WITNESS_TARGETS = ["int-branch", "float-branch", "non-finite-fallback", "comma-substituted", "api-uwi-exempt", "verbatim-text", "integer-too-large-for-int64-becomes-float", "converted-after-other-values"]
EXCLUSIONS = {}

# independent recogniser of plain decimal literals (ASCII)
LIT = r"[+-]?(?:[0-9]+(?:\.[0-9]*)?|\.[0-9]+|[0-9]+,[0-9]+)(?:[eE][+-]?[0-9]+)?\Z"
LIT_INT = r"[+-]?[0-9]+\Z"


def tasks(tier):
    b = BOUNDS[tier]
    out = [{"name": "%s/%s" % (t, v), "params": {"title": t, "version": v, "vcap": b["value_cap"], "mcap": b["mnemonic_cap"]}} for t in b["titles"] for v in b["versions"]]
    # long integer literals around the int64 boundary: sign x number of digits fixed per task, digits symbolic
    for sign in ("", "-", "+"):
        for nd in (18, 19, 20):
            for t in (["~Well", "~Parameter"] if tier == "quick" else ["~Version", "~Well", "~Parameter", "~Xyz"]):
                out.append({"name": "longint/%s%dd/%s" % (sign or "u", nd, t), "params": {"title": t, "version": 2.0, "long": [sign, nd], "mcap": b["mnemonic_cap"]}})
    # a conversion does not depend on the values converted before it (same process, same and other parser objects)
    for t in ("~Well", "~Parameter"):
        out.append({"name": "after-other-values/%s" % t, "params": {"title": t, "version": 2.0, "vcap": min(b["value_cap"], 5), "mcap": 1, "prelude": PRELUDE}})
    return out


PRELUDE = [["1,5A", "1,5A"], ["2.5B", "2.5B"], ["7", 7], ["1,5", 1.5], ["0,3>", "0,3>"]]  # (text, expected value)


def value_slot(title, version):
    """which read_header_line field carries the value for a (short) mnemonic in this section"""
    if title.upper().startswith("~W") and version == 1.2:
        return "descr"
    return "value"


def harness(ns, params):
    title, version, vcap, mcap = params["title"], params["version"], params.get("vcap"), params["mcap"]

    def run():
        A = core.assume
        m = SymStr.fresh("m", mcap, minlen=1)
        if "long" in params:
            sign, nd = params["long"]
            dg = SymStr.fresh("dg", nd, fixed_len=nd)
            A(allc(dg, lambda c: z.in_range_c(c, 48, 57)))
            from symlas.values import concat

            x = SymStr.lift(concat([sign, dg]))
        else:
            x = SymStr.fresh("x", vcap)
        for s in (x, m):
            A(allc(s, printable))
            A(is_stripped(s))
        inputs = {"title": title, "version": version, "x": x, "m": m}
        c = core.ctx()
        c.inputs = inputs
        apply_exclusions(inputs)
        parser = ns.reader.SectionParser(title, version=version)
        if params.get("prelude"):
            inputs["prelude"] = [pv for pv, _ in params["prelude"]]
            for pv, want in params["prelude"]:
                for prs in (parser, ns.reader.SectionParser("~Parameter", version=2.0)):
                    got = prs(name="Q", unit="", value=pv, descr="d").value
                    core.oblige("earlier-conversion-as-usual", (got == want) and type(got).__name__.startswith(type(want).__name__[:3]) if not isinstance(want, str) else (isinstance(got, str) and got == want))
            core.witness("converted-after-other-values")
        keys = {"name": m, "unit": "", "value": "filler", "descr": "filler"}
        keys[value_slot(title, version)] = x
        try:
            item = parser(**keys)
        except Exception as e:
            core.oblige("conversion-does-not-raise", False, info=repr(e)[:200])
            return {"observed": {"kind": "raised", "value": type(e).__name__}}
        r = item.value
        mu = SymStr.lift(m.upper())
        exempt = z.Or(mu.eq_expr("API"), mu.eq_expr("UWI"))
        is_param = title.upper().startswith("~P")
        is_curves = title.upper().startswith("~C")
        xd = SymStr.lift(x.replace(",", "."))
        lit = symre.fullmatch_expr(LIT, x)
        lit_int = symre.fullmatch_expr(LIT_INT, x)
        finite = z.Not(symnum.overflows(xd))
        should_be_number = z.And(lit, finite)
        if not is_param:
            should_be_number = z.And(should_be_number, z.Not(exempt))
        if is_curves:
            should_be_number = False
        if isinstance(r, symnum.SymNum):
            core.witness("int-branch" if r.kind == "int" else "float-branch")
            core.witness("comma-substituted", B(x.contains(",")))
            core.oblige("number-only-for-finite-literal", should_be_number)
            fits = symnum.int_fits64(x) if x.cap <= 24 else True
            core.witness("integer-too-large-for-int64-becomes-float", z.And(lit_int, z.Not(fits)) if r.kind == "float" else False)
            core.oblige("integer-iff-integer-literal-that-fits-64-bits", z.And(lit_int, fits) if r.kind == "int" else z.Not(z.And(lit_int, fits)))
            core.oblige("value-equals-literal", SymStr.lift(r.text).eq_expr(xd))
            obs = {"kind": r.kind, "value": r}
        elif isinstance(r, (str, SymStr)):
            core.witness("verbatim-text")
            core.witness("non-finite-fallback", z.And(lit, z.Not(finite)))
            core.witness("api-uwi-exempt", z.And(lit, exempt))
            core.oblige("finite-literal-becomes-number", z.Not(should_be_number))
            core.oblige("text-kept-verbatim", SymStr.lift(r).eq_expr(x))
            obs = {"kind": "str", "value": r}
        else:
            core.oblige("value-is-text-or-number", False)
            obs = {"kind": type(r).__name__, "value": repr(r)}
        return {"observed": obs}

    return run


# ------------------------------------------------------------------------------ concrete oracle
def replay(i):
    import re
    import numpy as np
    import lasio.reader as R

    title, version, x, m = i["title"], i["version"], i["x"], i["m"]
    parser = R.SectionParser(title, version=version)
    for pv in i.get("prelude", []):
        for prs in (parser, R.SectionParser("~Parameter", version=2.0)):
            prs(name="Q", unit="", value=pv, descr="d")
    keys = {"name": m, "unit": "", "value": "filler", "descr": "filler"}
    keys[value_slot(title, version)] = x
    try:
        r = parser(**keys).value
    except Exception as e:
        return {"ok": False, "detail": "%s v%s: %s value %r raised %r" % (title, version, m, x, e), "observed": {"kind": "raised", "value": type(e).__name__}}
    is_lit = re.match(LIT, x) is not None
    is_int = re.match(LIT_INT, x) is not None
    val = None
    if is_lit:
        from decimal import Decimal

        val = Decimal(x.replace(",", "."))
        is_lit = abs(val) < Decimal(2) ** 1024 * (1 - Decimal(2) ** -54)
    exempt = m.upper() in ("API", "UWI") and not title.upper().startswith("~P")
    want_number = is_lit and not exempt and not title.upper().startswith("~C")
    if isinstance(r, (np.integer, np.floating, int, float)) and not isinstance(r, bool):
        kind = "int" if isinstance(r, (np.integer, int)) else "float"
        obs = {"kind": kind, "value": int(r) if kind == "int" else float(r)}
        ok = want_number and (kind == "int") == (is_int and abs(val) < 2 ** 63)
        if ok:
            ok = (int(r) == val) if kind == "int" else (float(r) == float(val))
    else:
        obs = {"kind": "str" if isinstance(r, str) else type(r).__name__, "value": r if isinstance(r, str) else repr(r)}
        ok = (not want_number) and r == x
    return {"ok": bool(ok), "detail": "%s v%s: %s value %r -> %r (%s); literal=%s exempt=%s" % (title, version, m, x, r, type(r).__name__, is_lit, exempt), "observed": obs}


def validate():
    n, bad = symnum.validate(maxlen=4)
    return n, bad
