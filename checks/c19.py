"""C19 - ignore_header_errors makes header parsing tolerant and non-interfering.

Kernel: the whole real LASFile.read (find_sections_in_file, parse_header_items_section,
read_line/read_header_line, SectionParser, steering lookups, data reading with the normal
engine on concrete data) over a file stub in which one line - the junk line - is symbolic.
"""
from symlas import core, z, symre
from symlas.driver import apply_exclusions
from symlas.stubs import SymFile
from symlas.values import SymStr, B, B_decide
from checks.common import allc, printable_ascii, anyc

PROPERTY = "C19"
FUNCTIONS = [
    "lasio/reader.py::parse_header_items_section",
    "lasio/reader.py::read_header_line",
    "lasio/reader.py::configure_metadata_patterns",
    "lasio/reader.py::SectionParser.metadata",
    "lasio/reader.py::SectionParser.params",
    "lasio/reader.py::find_sections_in_file",
    "lasio/las.py::LASFile.read",
]
BASE = [
    ("V", "~Version"),
    ("V", "VERS. 2.0 : v"),
    ("V", "WRAP. NO : w"),
    ("W", "~Well"),
    ("W", "STRT.M 1.0 : a"),
    ("W", "STOP.M 2.0 : b"),
    ("W", "STEP.M 1.0 : c"),
    ("W", "NULL. -9 : n"),
    ("W", "COMP.  ACME"),  # a genuine line without a colon: no description field
    ("P", "~Parameter"),
    ("P", "BHT.DEGC 35.5 : t"),
    ("P", "MUD : GEL"),  # a genuine line without a period: neither unit nor description field
    ("X", "~Xtra {run 1}"),  # braces in a title: the error message is built with str.format
    ("X", "KEY. val : k"),
    ("C", "~Curve"),
    ("C", "DEPT.M : d"),
    ("C", "GR.API : g"),
    ("A", "~A"),
    ("A", "1 10"),
    ("A", "2 -9"),
]
# insertion sites: index into BASE *before which* the junk line goes
_AT = lambda text: [t for _, t in BASE].index(text)
SITES = {"V-mid": 2, "V-end": 3, "W-first": 4, "W-end": _AT("~Parameter"), "P-end": _AT("~Xtra {run 1}"), "X-first": _AT("KEY. val : k"), "X-end": _AT("~Curve"),
         "W-before-colonless-line": _AT("COMP.  ACME"), "P-before-periodless-line": _AT("MUD : GEL")}
BOUNDS = {
    "quick": {"junk_cap": 4, "sites": ["V-end", "W-first", "P-end", "X-end", "W-before-colonless-line", "P-before-periodless-line"], "flags": [True, False], "junk_lines": 1, "task_budget_s": 900,
              "alphabet": "printable ASCII", "base_file": [t for _, t in BASE]},
    "thorough": {"junk_cap": 7, "sites": list(SITES), "flags": [True, False], "junk_lines": 1, "task_budget_s": 3400,
                 "alphabet": "printable ASCII", "base_file": [t for _, t in BASE]},
}
ASSUMPTIONS = [
    "one junk line per run, at the listed sites of the listed base file; data read with engine='normal' on concrete data",
    "junk lines whose own parse names VERS/WRAP/DLM/NULL/STRT/STOP/STEP are excluded (they legitimately steer parsing / unit detection)",
    "junk lines longer than the capacity are outside the claim",
]
WITNESS_TARGETS = ["junk-unparsable-skipped", "junk-parsed-as-item", "junk-is-comment-or-blank", "error-raised-without-flag"]
EXCLUSIONS = {}
STEER = ("VERS", "WRAP", "DLM", "NULL", "STRT", "STOP", "STEP")


def tasks(tier):
    b = BOUNDS[tier]
    out = [{"name": "%s/flag=%s" % (s, f), "params": {"site": s, "flag": f, "cap": b["junk_cap"]}, "weight": 2 if f else 1} for s in b["sites"] for f in b["flags"]]
    # a parsable junk line carrying a 19/20-digit integer (all digits symbolic): conversion corner
    for s in (["W-end", "P-end"] if tier == "quick" else list(SITES)):
        for f in b["flags"]:
            for nd in (19, 20):
                out.append({"name": "%s/flag=%s/longint%d" % (s, f, nd), "params": {"site": s, "flag": f, "cap": 0, "longint": nd}})
    return out


def snapshot_sym(las):
    out = {}
    for name, sec in las.sections.items():
        if isinstance(sec, (str, SymStr)):
            out[name] = sec
        else:
            out[name] = [[it.original_mnemonic, it.unit, it.value, it.descr] for it in sec]
    return out


def harness(ns, params):
    site, flag, cap = params["site"], params["flag"], params["cap"]
    pos = SITES[site]

    def run():
        A = core.assume
        if params.get("longint"):
            from symlas.values import concat

            core.OPTS["concretize"] = True
            dg = SymStr.fresh("dg", params["longint"], fixed_len=params["longint"])
            A(allc(dg, lambda ch: z.in_range_c(ch, 48, 57)))
            J = SymStr.lift(concat(["Q9. ", dg, " : s"]))
        else:
            J = SymStr.fresh("J", cap)
            A(allc(J, printable_ascii))
        # the junk line is not a section title
        Js = SymStr.lift(J.strip())
        A(z.Not(B(Js.startswith("~"))))
        inputs = {"site": site, "flag": flag, "J": J}
        c = core.ctx()
        c.inputs = inputs
        apply_exclusions(inputs)
        # precondition: the junk line's own parse (if any) does not name a steering mnemonic.
        # The real line parser is used to state it, so the notion of "its parse" is lasio's own.
        sname = {"V": "Version", "W": "Well", "P": "Parameter", "X": "~Xtra {run 1}"}[site[0]]
        parsed = None
        if B_decide(Js.truth() if isinstance(Js, SymStr) else bool(Js)) and not B_decide(B(Js.startswith("#"))):
            try:
                parsed = ns.reader.read_header_line(Js, section_name=sname)
            except Exception:
                parsed = None
        if parsed is not None:
            nm = SymStr.lift(SymStr.lift(parsed["name"]).upper())
            for s_ in STEER:
                A(z.Not(nm.eq_expr(s_)))
        lines = [t for _, t in BASE[:pos]] + [J] + [t for _, t in BASE[pos:]]
        f = SymFile(lines)
        las = ns.las.LASFile()
        try:
            las.read(f, ignore_header_errors=flag, engine="normal", mnemonic_case="preserve")
        except ns.exceptions.LASHeaderError as e:
            msg = e.args[0]
            if flag:
                core.oblige("no-exception-with-flag", False)
            else:
                core.witness("error-raised-without-flag")
                core.oblige("error-names-the-line", B(SymStr.lift(msg).contains(Js)) if isinstance(Js, SymStr) else (Js in msg if isinstance(msg, str) else B(SymStr.lift(msg).contains(Js))))
            return {"observed": {"raised": "LASHeaderError"}}
        except Exception as e:
            core.oblige("only-LASHeaderError", False, info=repr(e)[:200])
            return {"observed": {"raised": type(e).__name__}}
        # which section did the junk end up in, if any?
        sect_key = {"V": "Version", "W": "Well", "P": "Parameter", "X": "Xtra {run 1}"}[site[0]]
        genuine = [t for k, t in BASE if k == site[0]][1:]
        sec = las.sections[sect_key]
        extra = len(sec) - len(genuine)
        j_idx = pos - [i for i, (k, _) in enumerate(BASE) if k == site[0]][0] - 1
        if extra == 1:
            core.witness("junk-parsed-as-item")
            rest = [it for i, it in enumerate(sec) if i != j_idx]
        elif extra == 0:
            if parsed is None and flag and isinstance(Js, SymStr):
                core.witness("junk-unparsable-skipped")
            else:
                core.witness("junk-is-comment-or-blank")
            rest = list(sec)
        else:
            core.oblige("junk-adds-at-most-one-item", False)
            rest = []
        # genuine items unchanged, in order, in every section; data unchanged
        ref = _reference()
        ok = True
        for name, items in ref["sections"].items():
            got = rest if name == sect_key else las.sections[name]
            if isinstance(items, str):
                core.oblige("section-%s-text" % name, SymStr.lift(got).eq_expr(items) if isinstance(got, (str, SymStr)) else False)
                continue
            if len(got) != len(items):
                core.oblige("section-%s-count" % name, False, info="%d items, expected %d" % (len(got), len(items)))
                continue
            for it, (m, u, v, d) in zip(got, items):
                cond = z.And(_eq(it.original_mnemonic, m), _eq(it.unit, u), _eqv(it.value, v), _eq(it.descr, d))
                core.oblige("section-%s-item-%s" % (name, m), cond)
        core.oblige("sections-keys", sorted(k for k in las.sections.keys() if isinstance(k, str)) == sorted(ref["sections"].keys()) and len(las.sections) == len(ref["sections"]))
        data = [list(map(float, cv.data)) for cv in las.curves]
        core.oblige("data-unchanged", _same_data(data, ref["data"]))
        return {"observed": {"raised": None, "extra_items": extra}}

    return run


def _eq(a, b):
    if isinstance(a, (str, SymStr)) and isinstance(b, (str, SymStr)):
        return SymStr.lift(a).eq_expr(b)
    return a == b


def _eqv(a, b):
    if isinstance(a, (str, SymStr)) or isinstance(b, (str, SymStr)):
        return _eq(a, b) if isinstance(a, (str, SymStr)) and isinstance(b, (str, SymStr)) else False
    return bool(a == b)


def _same_data(a, b):
    import math

    if len(a) != len(b):
        return False
    for x, y in zip(a, b):
        if len(x) != len(y):
            return False
        for p, q in zip(x, y):
            if not (p == q or (math.isnan(p) and math.isnan(q))):
                return False
    return True


_REF = None


def _reference():
    """the base file read by the real lasio (no junk line)"""
    global _REF
    if _REF is None:
        import lasio

        las = lasio.read("\n".join(t for _, t in BASE) + "\n", engine="normal", mnemonic_case="preserve")
        _REF = {"sections": _snap(las), "data": [list(map(float, c.data)) for c in las.curves]}
    return _REF


def _snap(las):
    out = {}
    for name, sec in las.sections.items():
        out[name] = sec if isinstance(sec, str) else [(it.original_mnemonic, it.unit, it.value, it.descr) for it in sec]
    return out


# ------------------------------------------------------------------------------ concrete oracle
def replay(i):
    import lasio
    from lasio.exceptions import LASHeaderError

    site, flag, J = i["site"], i["flag"], i["J"]
    pos = SITES[site]
    lines = [t for _, t in BASE[:pos]] + [J] + [t for _, t in BASE[pos:]]
    text = "\n".join(lines) + "\n"
    ref = _reference()
    try:
        las = lasio.read(text, ignore_header_errors=flag, engine="normal", mnemonic_case="preserve")
    except LASHeaderError as e:
        ok = (not flag) and J.strip() in str(e)
        return {"ok": ok, "detail": "junk %r at %s flag=%s raised LASHeaderError(%s)" % (J, site, flag, e), "observed": {"raised": "LASHeaderError"}}
    except Exception as e:
        return {"ok": False, "detail": "junk %r at %s flag=%s raised %r" % (J, site, flag, e), "observed": {"raised": type(e).__name__}}
    sect_key = {"V": "Version", "W": "Well", "P": "Parameter", "X": "Xtra {run 1}"}[site[0]]
    snap = _snap(las)
    genuine = ref["sections"][sect_key]
    got = list(snap.get(sect_key, []))
    extra = len(got) - len(genuine)
    j_idx = pos - [k for k, (s, _) in enumerate(BASE) if s == site[0]][0] - 1
    if extra == 1:
        jm = got[j_idx][0]
        if jm.upper() in STEER:
            return {"ok": True, "detail": "junk names a steering mnemonic (outside the property)", "observed": {"raised": None, "extra_items": extra}}
        got = got[:j_idx] + got[j_idx + 1:]
    snap[sect_key] = got

    def same(a, b):
        if isinstance(a, str) or isinstance(b, str):
            return a == b
        return len(a) == len(b) and all(tuple(map(str, x)) == tuple(map(str, y)) and type(x[2]) == type(y[2]) for x, y in zip(a, b))

    ok = set(snap) == set(ref["sections"]) and all(same(snap[k], ref["sections"][k]) for k in snap)
    data = [list(map(float, c.data)) for c in las.curves]
    ok = ok and _same_data(data, ref["data"])
    return {"ok": bool(ok), "detail": "junk %r at %s flag=%s -> sections %r data %r" % (J, site, flag, snap, data), "observed": {"raised": None, "extra_items": extra}}
