"""C04 - header line grammar: parsing inverts formatting under any padding.

Kernel: the real lasio.reader.read_header_line + configure_metadata_patterns, executed on a
symbolic line  p0 MNEM p1 . UNIT p2 VALUE p3 : p4 DESCR p5  whose fields and paddings are
solver variables.  One task per (family, section kind).
"""
import sys
from symlas import core, z
from symlas.driver import apply_exclusions
from symlas.values import SymStr, concat, isws, isdigit
from checks.common import Layout, printable, blank_or_tab, not_char

PROPERTY = "C04"
FUNCTIONS = ["lasio/reader.py::read_header_line", "lasio/reader.py::configure_metadata_patterns"]
SECTIONS = ["Version", "Well", "Curves", "Parameter", "~Xyz", None]
FAMILIES = ["F1", "F2", "F3", "F4", "F4c", "F5", "F6", "F7"]
BOUNDS = {
    "quick": {"field_cap": 2, "pad_cap": 2, "families": FAMILIES, "sections": ["Well", "Curves", "Parameter", None], "task_budget_s": 600,
              "alphabet": "printable Latin-1 (32-126, 160-254 except 0xB5 0xDF), blanks/tabs as padding"},
    "thorough": {"field_cap": 3, "pad_cap": 2, "families": FAMILIES, "sections": SECTIONS, "task_budget_s": 3300,
                 "alphabet": "printable Latin-1 (32-126, 160-254 except 0xB5 0xDF), blanks/tabs as padding"},
}
ASSUMPTIONS = [
    "lines longer than the stated capacities are outside the claim",
    "characters outside Latin-1 (and 0xB5, 0xDF, 0xFF) are outside the claim",
    "F1 unit class: no whitespace, no '.'/':' (those are family F5), not all digits (F3: digits + one blank + suffix; F7: all digits followed by >= 2 blanks), not bracketed",
    "value/unit padding p2 is non-empty whenever the value is non-empty",
    "regex semantics: own bounded encoding of CPython re, validated exhaustively on short strings each run",
]
WITNESS_TARGETS = ["time-pattern-selected", "regular-pattern-after-time-failed", "missing-period-form", "numeric-unit-with-blank", "line-parsed-after-a-line-of-the-other-form"]


def _rejected_sym(i):
    """the time pattern's look-arounds reject the separating colon at position i['sep']"""
    L = SymStr.lift(i["line"])
    s = i["sep"]
    at = lambda k: L.at(z.add(s, k))
    inl = lambda k: z.And(z.ge(z.add(s, k), 0), z.lt(z.add(s, k), L.n))
    two = lambda a, b, k: z.And(inl(k), inl(k + 1), z.eq_c(at(k), ord(a)), z.eq_c(at(k + 1), ord(b)))
    ahead = z.Or(z.And(inl(1), inl(2), z.in_range_c(at(1), 48, 53), z.in_range_c(at(2), 48, 57)), two("m", "m", 1), two("M", "M", 1))
    behind = z.And(inl(-3), z.eq_c(at(-3), 32), z.Or(z.And(z.in_range_c(at(-2), 48, 50), z.in_range_c(at(-1), 48, 51)), two("h", "h", -2), two("H", "H", -2)))
    return z.Or(ahead, behind)


def _excl_sym(i):
    if i["section"] != "Parameter" or i["family"] == "F2":
        return False
    u = SymStr.lift(i["u"])
    return z.And(u.contains(":").e if hasattr(u.contains(":"), "e") else u.contains(":"), _rejected_sym(i))


def _excl_conc(i):
    import re

    if i["section"] != "Parameter" or i["family"] == "F2" or ":" not in i["u"]:
        return False
    line, s = i["line"], i["sep"]
    ahead = re.match(r"[0-5][0-9]|mm|MM", line[s + 1:]) is not None
    behind = s >= 3 and re.fullmatch(r" ([0-2][0-3]|hh|HH)", line[s - 3:s]) is not None
    return ahead or behind


EXCLUSIONS = {"param_unit_colon_and_separator_rejected_by_time_lookarounds": (_excl_sym, _excl_conc)}


def tasks(tier):
    b = BOUNDS[tier]
    out = []
    for fam in b["families"]:
        for sec in b["sections"]:
            if fam in ("F4", "F4c") and sec != "Parameter":
                continue
            fcap = b["field_cap"]
            # per-family capacities measured against the 120 s query limit: the period-less form is cheap, the time forms are not
            fcap = {"F2": 4, "F4": 2, "F4c": 2}.get(fam, fcap)
            out.append({"name": "%s/%s" % (fam, sec), "params": {"family": fam, "section": sec, "fcap": fcap, "pcap": b["pad_cap"]},
                        "weight": 3 if sec == "Parameter" else 1})
    # the parse of a line does not depend on the lines parsed before it: a line of the other basic form
    # (with / without a period before the colon) of the same section kind goes first
    for fam in ("F1", "F2"):
        for sec in ("Well", "Parameter"):
            out.append({"name": "%s-after-%s/%s" % (fam, "periodless" if fam == "F1" else "regular", sec),
                        "params": {"family": fam, "section": sec, "fcap": b["field_cap"], "pcap": b["pad_cap"], "prelude": [PRELUDE["F2" if fam == "F1" else "F1"][0]]}, "weight": 3})
    return out


PRELUDE = {"F2": ("MUD WEIGHT : 1.25", {"name": "MUD WEIGHT", "unit": "", "value": "1.25", "descr": ""}),
           "F1": ("STRT.M 1.5 : start", {"name": "STRT", "unit": "M", "value": "1.5", "descr": "start"})}
PRELUDE_EXPECTED = {ln: e for ln, e in PRELUDE.values()}


def build(fam, sec, fcap, pcap):
    """returns (line, expected dict, inputs dict) for one family: the line is a Layout"""
    A = core.assume
    nows = lambda c: z.Not(isws(c))
    pad = lambda nm: {"name": nm, "lo": 0, "hi": pcap, "cls": blank_or_tab}
    fld = lambda nm, cap, lo=0, extra=None: {"name": nm, "lo": lo, "hi": cap, "cls": (lambda c: z.And(printable(c), extra(c))) if extra else printable}
    m_cls = (lambda c: z.And(not_char(".", ":")(c))) if fam == "F6" else (lambda c: z.And(not_char(".", ":")(c), nows(c)))
    d_cls = None if fam == "F4c" else not_char(":")
    if fam == "F2":
        segs = [pad("p0"), fld("m", fcap, 1, m_cls), pad("p1"), {"name": "colon", "lit": ":"}, pad("p2"), fld("v", fcap), pad("p5")]
        lay = Layout("L", segs)
        A(lay.stripped("m"))
        A(lay.stripped("v"))
        m, v = lay.seg("m"), lay.seg("v")
        inputs = {"family": fam, "section": sec, "line": lay.line, "m": m, "v": v}
        return lay.line, {"name": m, "unit": "", "value": v, "descr": ""}, inputs
    ucap = max(fcap, 3) if fam == "F5" else fcap
    u_cls = nows if fam == "F5" else (lambda c: z.And(nows(c), not_char(".", ":")(c)))
    useg = [fld("u", ucap, 3 if fam == "F5" else 0, u_cls)]
    if fam == "F3":
        useg = [fld("num", 3, 1, isdigit), {"name": "ublank", "lit": " "}, fld("u", fcap, 1, u_cls)]
    if fam == "F7":
        # an all-digit unit keeps to itself when at least two blanks/tabs follow it
        useg = [fld("u", 3, 1, isdigit)]
    if fam in ("F4", "F4c"):
        dg = lambda nm, lo, hi: {"name": nm, "lo": 1, "hi": 1, "cls": lambda c: z.in_range_c(c, lo, hi)}
        vseg = [fld("date", 3, 0, lambda c: z.And(nows(c), not_char(":")(c))), {"name": "dsep", "lit": " ", "optional": True},
                dg("h1", 48, 50), dg("h2", 48, 57), {"name": "c1", "lit": ":"}, dg("m1", 48, 53), dg("m2", 48, 57),
                {"name": "c2", "lit": ":", "optional": True}, {"name": "s1", "lo": 0, "hi": 1, "cls": lambda c: z.in_range_c(c, 48, 53)},
                {"name": "s2", "lo": 0, "hi": 1, "cls": isdigit}]
        vfirst, vlast = "date", "s2"
    else:
        v_cls = None
        if sec == "Parameter":
            v_cls = not_char(":")
        vseg = [fld("v", fcap, 0, v_cls)]
        vfirst = vlast = "v"
    segs = [pad("p0"), fld("m", fcap, 1, m_cls), pad("p1"), {"name": "dot", "lit": "."}] + useg + [pad("p2")] + vseg + \
           [pad("p3"), {"name": "colon", "lit": ":"}, pad("p4"), fld("d", fcap, 0, d_cls), pad("p5")]
    lay = Layout("L", segs)
    L = lay.line
    for f in ("m", "u", "d"):
        A(lay.stripped(f))
    if fam == "F6":
        A(lay.any_char("m", lambda c: z.eq_c(c, 32)))
    # unit: never all digits (family F3 covers digits + blank), never bracketed, F5: interior dot/colon only
    if fam != "F7":
        A(z.Or(z.Not(lay.nonempty("u")), lay.any_char("u", lambda c: z.Not(isdigit(c)))))
    else:
        A(z.ge(lay.seglen("p2"), 2))
    br = lambda o, c: z.And(lay.first_char_is("u", lambda x: z.eq_c(x, o)), lay.last_char_is("u", lambda x: z.eq_c(x, c)), z.ge(lay.seglen("u"), 2))
    A(z.Not(br(91, 93)))
    A(z.Not(br(40, 41)))
    if fam == "F5":
        A(lay.any_char("u", lambda c: z.in_set_c(c, (46, 58))))
        A(lay.first_char_is("u", not_char(".", ":")))
        A(lay.last_char_is("u", not_char(".", ":")))
        A(lay.no_pair("u", ".", "."))
    if fam in ("F4", "F4c"):
        # hour 00..23; date token and its separator come together; seconds come with their colon
        A(z.Or(lay.all_chars("h1", lambda c: z.in_range_c(c, 48, 49)), lay.all_chars("h2", lambda c: z.in_range_c(c, 48, 51))))
        A(z.Iff(lay.nonempty("dsep"), lay.nonempty("date")))
        A(z.Iff(lay.nonempty("c2"), lay.nonempty("s1")))
        A(z.Iff(lay.nonempty("c2"), lay.nonempty("s2")))
        if fam == "F4c":
            A(lay.any_char("d", lambda c: z.eq_c(c, 58)))
            A(z.And(lay.nonempty("p3"), lay.nonempty("p4")))
            A(lay.last_char_is("p3", lambda c: z.eq_c(c, 32)))
            A(lay.first_char_is("p4", lambda c: z.eq_c(c, 32)))
    else:
        A(lay.stripped("v"))
        if sec == "Curves":
            A(lay.no_pair("v", ".", "."))
    # the value is set off from the unit by at least one blank whenever it is non-empty
    A(z.Or(z.eq_i(lay.s[lay.idx[vfirst]], lay.s[lay.idx[vlast] + 1]), lay.nonempty("p2")))
    if fam == "F3":
        A(lay.nonempty("p2"))
    m, d = lay.seg("m"), lay.seg("d")
    v = lay.span(vfirst, vlast)
    unit = lay.span("num", "u") if fam == "F3" else lay.seg("u")
    inputs = {"family": fam, "section": sec, "line": L, "m": m, "u": unit, "v": v, "d": d, "sep": lay.s[lay.idx["colon"]]}
    return L, {"name": m, "unit": unit, "value": v, "descr": d}, inputs


def harness(ns, params):
    fam, sec, fcap, pcap = params["family"], params["section"], params["fcap"], params["pcap"]

    def run():
        line, exp, inputs = build(fam, sec, fcap, pcap)
        c = core.ctx()
        if params.get("prelude"):
            inputs["prelude"] = list(params["prelude"])
        c.inputs = inputs
        apply_exclusions(inputs)
        for pl in params.get("prelude", []):
            try:
                pd = ns.reader.read_header_line(pl, section_name=sec)
                core.oblige("earlier-line-parses-as-usual", all(pd[k] == PRELUDE_EXPECTED[pl][k] for k in ("name", "unit", "value", "descr")))
            except AttributeError:
                core.oblige("earlier-line-parses", False)
            core.witness("line-parsed-after-a-line-of-the-other-form")
        # spy on which pattern list was configured (vacuity guards)
        pats = ns.reader.configure_metadata_patterns(line, sec)
        if len(pats) == 2:
            core.witness("time-pattern-selected")
        try:
            d = ns.reader.read_header_line(line, section_name=sec)
        except AttributeError:
            core.oblige("parses", False)
            return {"observed": "AttributeError"}
        if fam == "F2":
            core.witness("missing-period-form")
        if fam == "F3":
            core.witness("numeric-unit-with-blank")
        ok = True
        for k in ("name", "unit", "value", "descr"):
            ok = core.oblige("field-" + k, SymStr.lift(d[k]).eq_expr(exp[k])) and ok
        if sec == "Parameter" and fam in ("F1", "F5"):
            core.witness("regular-pattern-after-time-failed", z.Not(_time_pattern_matches(ns, line)))
        return {"observed": {k: d[k] for k in ("name", "unit", "value", "descr")}}

    return run


def _time_pattern_matches(ns, line):
    from symlas import symre

    pats = ns.reader.configure_metadata_patterns(line, "Parameter")
    return symre.match_expr(pats[0], line) if len(pats) == 2 else False


# ------------------------------------------------------------------------------ concrete oracle
def replay(i):
    import lasio.reader as R

    line = i["line"]
    exp = {"name": i["m"], "unit": i.get("u", ""), "value": i["v"], "descr": i.get("d", "")}
    for pl in i.get("prelude", []):
        try:
            pd = R.read_header_line(pl, section_name=i["section"])
        except AttributeError as e:
            return {"ok": False, "detail": "earlier line %r raised %r" % (pl, e), "observed": "AttributeError"}
        if {k: pd[k] for k in ("name", "unit", "value", "descr")} != PRELUDE_EXPECTED[pl]:
            return {"ok": False, "detail": "earlier line %r parsed as %r" % (pl, pd), "observed": "prelude"}
    try:
        d = R.read_header_line(line, section_name=i["section"])
    except AttributeError as e:
        return {"ok": False, "detail": "line %r raised %r" % (line, e), "observed": "AttributeError"}
    obs = {k: d[k] for k in ("name", "unit", "value", "descr")}
    return {"ok": obs == exp, "detail": "line %r (section %r) parsed as %r, expected %r" % (line, i["section"], obs, exp), "observed": obs}


def validate():
    """regex encoding vs CPython re: exhaustive over short strings for every pattern lasio builds"""
    import itertools
    import re
    import lasio.reader as R
    from symlas import symre

    pats = set()
    for ln, sec in [("A.B C:D", "Well"), ("A.B C:D", "Parameter"), ("A B:C", "Well"), ("A.B C", "Curves"), ("A..B C:D", "Curves"), ("A..B C", "Curves"), ("A B:C", "Parameter")]:
        pats.update(R.configure_metadata_patterns(ln, sec))
    pats = sorted(pats)
    bad = []
    n = 0

    def res(m):
        return None if m is None else (m.span(), m.groupdict())

    alpha = "A1 .:"
    extra = ["T. 13:30 : x", "T.  3:30 : x", "T. hh:mm : t", "T. 13:30:05 : a:b", "T.1000 lbf 5 : x", "A.B 04:59 :d", " 23:59", "T. 23:5 : 1", "T.m 1 : 2:30"]
    for txt in ["".join(t) for L in range(5) for t in itertools.product(alpha, repeat=L)] + extra:
        s = SymStr([ord(c) for c in txt], len(txt))
        for p in pats:
            n += 1
            if res(re.match(p, txt)) != res(symre.match(p, s)):
                bad.append((p, txt))
    return n, bad
