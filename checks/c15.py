"""C15 - section lookup by key, attribute, membership and get() always agree.

Kernel: the real SectionItems accessors (__contains__, __getitem__, __getattr__, __delitem__,
get, __setitem__/set_item_value, mnemonic_compare) on a section built by a symbolic history,
probed with a symbolic key (string, integer or slice).
"""
import numpy as np
from symlas import core, z
from symlas.driver import apply_exclusions
from symlas.values import SymStr, SymInt, B, fresh_int, fresh_bool
from checks.common import allc

PROPERTY = "C15"
FUNCTIONS = [
    "lasio/las_items.py::SectionItems.__contains__",
    "lasio/las_items.py::SectionItems.__getitem__",
    "lasio/las_items.py::SectionItems.__getattr__",
    "lasio/las_items.py::SectionItems.__delitem__",
    "lasio/las_items.py::SectionItems.get",
    "lasio/las_items.py::SectionItems.__setitem__",
    "lasio/las_items.py::SectionItems.set_item_value",
    "lasio/las_items.py::SectionItems.mnemonic_compare",
    "lasio/las_items.py::SectionItems.append",
    "lasio/las_items.py::SectionItems.insert",
]
PROBES = ["contains", "getitem", "getattr", "delete", "get", "get_add", "assign", "int_get", "int_del", "slice"]
ALPHABET = "Aa:1 _"
BOUNDS = {
    "quick": {"build_len": [1, 2], "name_cap": 2, "key_cap": 3, "alphabet": ALPHABET, "probes": PROBES, "task_budget_s": 600,
              "extra_tasks": [[3, "getitem"], [3, "delete"]]},
    "thorough": {"build_len": [1, 2, 3], "name_cap": 3, "key_cap": 3, "alphabet": ALPHABET, "probes": PROBES, "task_budget_s": 3000, "max_paths": 400000,
                 "extra_tasks": [[4, "contains"], [4, "getitem"], [4, "getattr"], [4, "delete"], [4, "get"], [4, "get_add"], [4, "assign"]]},
}
ASSUMPTIONS = [
    "sections of HeaderItems built by up to the stated number of append/insert operations with symbolic names, positions and case-normalisation flag",
    "probe keys: every string up to 3 characters over 'Aa:1 ', every integer in [-n-1, n], every slice with bounds in [-n-1, n+1]",
]
WITNESS_TARGETS = ["key-present", "key-absent", "match-by-case-only", "section-of-curve-items", "two-items-share-a-session-name-after-a-rename"]
EXCLUSIONS = {}


def tasks(tier):
    b = BOUNDS[tier]
    combos = [(k, p) for k in b["build_len"] for p in b["probes"]] + [tuple(x) for x in b.get("extra_tasks", [])]
    return [{"name": "build%d/%s" % (k, p), "params": {"k": k, "probe": p, "ncap": b["name_cap"], "kcap": b["key_cap"]}, "weight": 4 ** k} for k, p in combos]


def _cmp(a, b, tr):
    a, b = SymStr.lift(a), SymStr.lift(b)
    return SymStr.lift(a.upper()).eq_expr(b.upper()) if tr else a.eq_expr(b)


def item_data(t):
    return np.array([10.0 * t + 1, 10.0 * t + 2])


def harness(ns, params):
    k, probe, ncap, kcap = params["k"], params["probe"], params["ncap"], params["kcap"]
    HeaderItem, SectionItems = ns.items.HeaderItem, ns.items.SectionItems
    codes = tuple(ord(c) for c in ALPHABET)

    def run():
        A = core.assume
        tr = fresh_bool("transforms")
        names = []
        for t in range(k):
            nm = SymStr.fresh("n%d" % t, ncap)
            A(allc(nm, lambda c: z.in_set_c(c, codes)))
            names.append(nm)
        key = SymStr.fresh("key", kcap)
        A(allc(key, lambda c: z.in_set_c(c, codes)))
        pos = [fresh_int("pos%d" % t, 0, t) for t in range(k)]
        ia = fresh_int("ia", -k - 1, k + 1)
        ib = fresh_int("ib", -k - 1, k + 1)
        rn = fresh_bool("rename_last_to_first")
        cvs = fresh_bool("curve_section")  # a section of CurveItems carrying float64 arrays (get() builds its default from the first one)
        inputs = {"probe": probe, "names": names, "pos": pos, "transforms": tr, "key": key, "ia": ia, "ib": ib, "curve_section": cvs, "rename_last_to_first": rn}
        c = core.ctx()
        c.inputs = inputs
        apply_exclusions(inputs)
        trz = bool(tr)
        if probe not in ("get", "get_add"):
            A(z.Not(B(cvs)))
        cvz = bool(cvs)
        core.witness("section-of-curve-items", cvz)
        s = SectionItems()
        if trz:
            s.mnemonic_transforms = True
        for t in range(k):
            s.insert(pos[t], ns.items.CurveItem(names[t], value="v%d" % t, data=item_data(t)) if cvz else HeaderItem(names[t], value="v%d" % t))
        if k >= 2 and bool(rn):
            # renaming an item in place to the name of another one: two items then share a session name (no renumbering
            # happens on attribute assignment) - lookups and deletion must still agree on the first of them
            list.__getitem__(s, k - 1).mnemonic = list.__getitem__(s, 0).original_mnemonic
            core.witness("two-items-share-a-session-name-after-a-rename")
        items = list(list.__iter__(s))
        sess = [SymStr.lift(it.mnemonic) for it in items]
        snap = [(it, it.mnemonic, it.original_mnemonic, it.unit, it.value, it.descr) for it in items]
        datas = [np.array(it.data, copy=True) if cvz else None for it in items]
        match = [_cmp(sess[j], key, trz) for j in range(len(items))]
        anym = z.Or(match)
        first = [z.And(match[j], z.Not(z.Or(match[:j]))) for j in range(len(items))]
        core.witness("key-present", anym)
        core.witness("key-absent", z.Not(anym))
        if trz:
            core.witness("match-by-case-only", z.Or([z.And(match[j], z.Not(sess[j].eq_expr(key))) for j in range(len(items))]))
        if len(items) > 1:
            core.witness("duplicate-session-names-first-wins", z.And(match[0], match[1]))

        def unchanged(except_value_of=None):
            cur = list(list.__iter__(s))
            if len(cur) != len(snap) or any(a is not b[0] for a, b in zip(cur, snap)):
                return False
            cs = [bool(np.array_equal(np.asarray(it.data), dd)) for (it, *_), dd in zip(snap, datas) if dd is not None]
            for it, m, o, u, v, d in snap:
                cs += [SymStr.lift(it.mnemonic).eq_expr(m), SymStr.lift(it.original_mnemonic).eq_expr(o), it.unit == u, it.descr == d]
                if it is not except_value_of:
                    cs.append(it.value == v if not isinstance(it.value, SymStr) else False)
            return z.And(cs)

        obs = None
        if probe == "contains":
            r = key in s
            core.oblige("contains-iff-a-session-name-matches", anym if r else z.Not(anym))
            obs = bool(r)
        elif probe in ("getitem", "getattr"):
            try:
                it = s[key] if probe == "getitem" else SectionItems.__getattr__(s, key)
            except (KeyError, AttributeError) as e:
                core.oblige("%s-fails-only-when-absent" % probe, z.Not(anym))
                core.oblige("error-kind", isinstance(e, KeyError) if probe == "getitem" else isinstance(e, AttributeError))
                obs = "missing"
            else:
                j = [q for q, x in enumerate(items) if x is it]
                core.oblige("%s-returns-a-section-item" % probe, len(j) == 1)
                if j:
                    core.oblige("%s-returns-first-match" % probe, first[j[0]])
                    obs = j[0]
            core.oblige("lookup-is-pure", unchanged())
        elif probe == "delete":
            try:
                del s[key]
            except KeyError:
                core.oblige("delete-fails-only-when-absent", z.Not(anym))
                core.oblige("failed-delete-is-pure", unchanged())
                obs = "missing"
            else:
                cur = list(list.__iter__(s))
                gone = [q for q, x in enumerate(items) if not any(x is y for y in cur)]
                core.oblige("delete-removes-exactly-one", len(gone) == 1 and len(cur) == len(items) - 1)
                if len(gone) == 1:
                    core.oblige("delete-removes-first-match", first[gone[0]])
                    core.oblige("delete-preserves-order", all(a is b for a, b in zip(cur, [x for q, x in enumerate(items) if q != gone[0]])))
                    obs = gone[0]
        elif probe in ("get", "get_add"):
            add = probe == "get_add"
            it = s.get(key, default="dflt", add=add)
            cur = list(list.__iter__(s))
            j = [q for q, x in enumerate(items) if x is it]
            if j:
                core.oblige("get-returns-first-match", first[j[0]])
                core.oblige("get-of-present-key-is-pure", unchanged())
                obs = j[0]
            else:
                core.oblige("get-creates-only-when-absent", z.Not(anym))
                if cvz and items:
                    nd = np.asarray(it.data)
                    core.oblige("get-new-curve-item-carries-key-default-and-NaN-data", z.And(SymStr.lift(it.original_mnemonic).eq_expr(key), it.descr == "dflt", nd.shape == datas[0].shape and bool(np.all(nd != nd))))
                else:
                    core.oblige("get-new-item-carries-key-and-default", z.And(SymStr.lift(it.original_mnemonic).eq_expr(key), it.value == "dflt"))
                if add:
                    core.oblige("get-add-appends-exactly-one", len(cur) == len(items) + 1 and cur[-1] is it and all(a is b for a, b in zip(cur, items)))
                    core.oblige("get-add-leaves-the-arrays-of-the-other-items-alone", all(bool(np.array_equal(np.asarray(x.data), dd)) for x, dd in zip(items, datas) if dd is not None))
                else:
                    core.oblige("get-without-add-is-pure", unchanged())
                obs = "new"
        elif probe == "assign":
            try:
                s[key] = "newvalue"
            except KeyError:
                core.oblige("assign-fails-only-when-absent", z.Not(anym))
                core.oblige("failed-assign-is-pure", unchanged())
                obs = "missing"
            else:
                ch = [q for q, x in enumerate(items) if isinstance(x.value, str) and x.value == "newvalue"]
                core.oblige("assign-changes-exactly-one-value", len(ch) == 1)
                if len(ch) == 1:
                    core.oblige("assign-changes-first-match", first[ch[0]])
                    core.oblige("assign-changes-only-the-value", unchanged(except_value_of=items[ch[0]]))
                    obs = ch[0]
        elif probe in ("int_get", "int_del"):
            n = len(items)
            try:
                if probe == "int_get":
                    it = s[ia]
                else:
                    del s[ia]
            except IndexError:
                core.oblige("index-error-only-out-of-range", z.Or(z.ge(ia.e, n), z.lt(ia.e, -n)))
                core.oblige("failed-index-op-is-pure", unchanged())
                obs = "IndexError"
            else:
                iv = int(ia)
                core.oblige("index-in-range", -n <= iv < n)
                if -n <= iv < n:
                    if probe == "int_get":
                        core.oblige("int-key-addresses-position", it is items[iv])
                        core.oblige("lookup-is-pure", unchanged())
                    else:
                        ref = list(items)
                        del ref[iv]
                        cur = list(list.__iter__(s))
                        core.oblige("int-delete-as-in-a-list", len(cur) == len(ref) and all(a is b for a, b in zip(cur, ref)))
                obs = iv
        elif probe == "slice":
            sl = s[ia:ib]
            a_, b_ = int(ia), int(ib)
            ref = items[a_:b_]
            got = list(list.__iter__(sl))
            core.oblige("slice-as-in-a-list", len(got) == len(ref) and all(x is y for x, y in zip(got, ref)))
            core.oblige("slice-is-a-section", isinstance(sl, SectionItems))
            core.oblige("lookup-is-pure", unchanged())
            obs = [a_, b_, len(got)]
        return {"observed": {"keys": [it.mnemonic for it in list.__iter__(s)], "result": obs}}

    return run


# ------------------------------------------------------------------------------ concrete oracle
def replay(i):
    import lasio

    probe, names, pos, tr, key, ia, ib = i["probe"], i["names"], i["pos"], i["transforms"], i["key"], i["ia"], i["ib"]
    s = lasio.SectionItems()
    if tr:
        s.mnemonic_transforms = True
    cvz = bool(i.get("curve_section"))
    for t, nm in enumerate(names):
        s.insert(pos[t], lasio.CurveItem(nm, value="v%d" % t, data=item_data(t)) if cvz else lasio.HeaderItem(nm, value="v%d" % t))
    if len(names) >= 2 and i.get("rename_last_to_first"):
        list.__getitem__(s, len(names) - 1).mnemonic = list.__getitem__(s, 0).original_mnemonic
    items = list(list.__iter__(s))
    datas = [np.array(it.data, copy=True) if cvz else None for it in items]
    sess = [it.mnemonic for it in items]
    norm = (lambda x: x.upper()) if tr else (lambda x: x)
    match = [norm(m) == norm(key) for m in sess]
    first = match.index(True) if any(match) else None
    snap = [(it, it.mnemonic, it.original_mnemonic, it.unit, it.value, it.descr) for it in items]
    problems = []

    def unchanged(exc=None):
        cur = list(list.__iter__(s))
        if len(cur) != len(snap) or any(a is not b[0] for a, b in zip(cur, snap)):
            return False
        if not all(np.array_equal(np.asarray(it.data), dd) for (it, *_), dd in zip(snap, datas) if dd is not None):
            return False
        return all((it.mnemonic, it.original_mnemonic, it.unit, it.descr) == (m, o, u, d) and (it is exc or it.value == v) for it, m, o, u, v, d in snap)

    obs = None
    if probe == "contains":
        r = key in s
        obs = bool(r)
        if bool(r) != any(match):
            problems.append("%r in section -> %r but session names are %r" % (key, r, sess))
    elif probe in ("getitem", "getattr"):
        try:
            it = s[key] if probe == "getitem" else lasio.SectionItems.__getattr__(s, key)
        except (KeyError, AttributeError) as e:
            obs = "missing"
            if any(match):
                problems.append("%s(%r) raised %r although %r is present" % (probe, key, e, sess))
        else:
            j = [q for q, x in enumerate(items) if x is it]
            obs = j[0] if j else None
            if not j or j[0] != first:
                problems.append("%s(%r) returned item %r, first match is %r (names %r)" % (probe, key, j, first, sess))
        if not unchanged():
            problems.append("lookup changed the section")
    elif probe == "delete":
        try:
            del s[key]
        except KeyError:
            obs = "missing"
            if any(match) or not unchanged():
                problems.append("del [%r] raised KeyError; names %r" % (key, sess))
        else:
            cur = list(list.__iter__(s))
            gone = [q for q, x in enumerate(items) if not any(x is y for y in cur)]
            obs = gone[0] if len(gone) == 1 else None
            if gone != [first] or [x for q, x in enumerate(items) if q != first] != cur:
                problems.append("del [%r] removed %r, expected %r (names %r)" % (key, gone, first, sess))
    elif probe in ("get", "get_add"):
        add = probe == "get_add"
        it = s.get(key, default="dflt", add=add)
        cur = list(list.__iter__(s))
        j = [q for q, x in enumerate(items) if x is it]
        if j:
            obs = j[0]
            if j[0] != first or not unchanged():
                problems.append("get(%r) returned item %r, first match %r" % (key, j, first))
        else:
            obs = "new"
            if any(match):
                problems.append("get(%r) created a new item although present in %r" % (key, sess))
            if cvz and items:
                nd = np.asarray(it.data)
                if it.original_mnemonic != key or it.descr != "dflt" or nd.shape != datas[0].shape or not np.all(nd != nd):
                    problems.append("get(%r) new curve item is %r with data %r" % (key, it, nd))
            elif it.original_mnemonic != key or it.value != "dflt":
                problems.append("get(%r) new item is %r" % (key, it))
            if not all(np.array_equal(np.asarray(x.data), dd) for x, dd in zip(items, datas) if dd is not None):
                problems.append("get(%r, add=%r) changed the arrays of existing curves: %r, before %r" % (key, add, [list(x.data) for x in items], [list(dd) for dd in datas]))
            if add and not (len(cur) == len(items) + 1 and cur[-1] is it and cur[:-1] == items):
                problems.append("get(add=True) did not append exactly one item")
            if not add and not unchanged():
                problems.append("get() without add changed the section")
    elif probe == "assign":
        try:
            s[key] = "newvalue"
        except KeyError:
            obs = "missing"
            if any(match) or not unchanged():
                problems.append("assignment to %r raised KeyError; names %r" % (key, sess))
        else:
            ch = [q for q, x in enumerate(items) if x.value == "newvalue"]
            obs = ch[0] if len(ch) == 1 else None
            if ch != [first] or not unchanged(exc=items[first] if first is not None else None):
                problems.append("assignment to %r changed items %r, first match %r" % (key, ch, first))
    elif probe in ("int_get", "int_del"):
        n = len(items)
        try:
            if probe == "int_get":
                it = s[ia]
            else:
                del s[ia]
        except IndexError:
            obs = "IndexError"
            if -n <= ia < n or not unchanged():
                problems.append("index %d raised IndexError with %d items" % (ia, n))
        else:
            obs = ia
            if not (-n <= ia < n):
                problems.append("index %d accepted with %d items" % (ia, n))
            elif probe == "int_get":
                if it is not items[ia] or not unchanged():
                    problems.append("s[%d] is not item %d" % (ia, ia))
            else:
                ref = list(items)
                del ref[ia]
                if list(list.__iter__(s)) != ref:
                    problems.append("del s[%d] differs from a list" % ia)
    elif probe == "slice":
        sl = s[ia:ib]
        got = list(list.__iter__(sl))
        obs = [ia, ib, len(got)]
        if got != items[ia:ib] or not isinstance(sl, lasio.SectionItems) or not unchanged():
            problems.append("s[%d:%d] differs from a list slice" % (ia, ib))
    return {"ok": not problems, "detail": "; ".join(problems) or "ok", "observed": {"keys": [it.mnemonic for it in list.__iter__(s)], "result": obs}}
