"""C02 - fast (numpy) and reference (normal) data engines return identical curves.

Kernel: the whole real LASFile.read twice - engine='numpy' and engine='normal' - on the same
symbolic file: find_sections_in_file, inspect_data_section, engine selection and silent
fallback, read_data_section_iterative_numpy_engine (numpy.genfromtxt is a validated contract
stub), read_data_section_iterative_normal_engine, column assignment and NULL handling.
The layout of the data section is symbolic (datafile.py).
"""
import numpy as np
from symlas import core, z, symnp
from symlas.driver import apply_exclusions
from symlas.stubs import SymFile
from symlas.values import SymStr, fresh_int, fresh_bool
from checks import datafile as DF

PROPERTY = "C02"
FUNCTIONS = [
    "lasio/reader.py::read_data_section_iterative_numpy_engine",
    "lasio/reader.py::read_data_section_iterative_normal_engine",
    "lasio/reader.py::inspect_data_section",
    "lasio/reader.py::find_sections_in_file",
    "lasio/reader.py::identify_dtypes_from_data",
    "lasio/las.py::LASFile.read",
]
SHAPES_Q = [(1, 1), (1, 2), (2, 1), (2, 2), (3, 2)]
SHAPES_T = [(1, 1), (1, 2), (1, 3), (2, 1), (3, 1), (2, 2), (3, 2), (2, 3), (3, 3)]
BOUNDS = {
    "quick": {"shapes": SHAPES_Q, "after": ["last", "P", "O"], "pad_cap": 2, "task_budget_s": 900},
    "thorough": {"shapes": SHAPES_T, "after": ["last", "P", "O", "X"], "pad_cap": 2, "task_budget_s": 3000},
}
ASSUMPTIONS = [
    "numpy.genfromtxt is a contract stub (skip_header physical lines, '#' comments, blank lines skipped, max_rows counted in data rows, equal row widths or ValueError, squeeze of 1-row/1-column/1x1 results), validated against the real function on 44286 small files each run",
    "data tokens are concrete numerals (integers, fixed, exponent, signed, '.5', '5.') converted by the real numpy; paddings (blank/tab strings), one extra blank/whitespace/comment line at any position incl. last, LF/CRLF, final newline and what follows ~A are symbolic",
    "shapes up to 3x3, paddings up to the stated capacity",
]
WITNESS_TARGETS = ["numpy-engine-produced-the-array", "extra-line-last-in-section", "crlf", "no-final-newline", "data-section-followed-by-another"]
EXCLUSIONS = {}


def tasks(tier):
    b = BOUNDS[tier]
    out = [{"name": "%dx%d/%s" % (r, c, a), "params": {"rows": r, "cols": c, "after": a, "pcap": b["pad_cap"]}, "weight": r * c} for (r, c) in b["shapes"] for a in b["after"]]
    # larger shapes with a concrete layout (single blanks): every numeral spelling of the table occurs, the symbolic part
    # is the choice of extra line, terminators and final newline
    out += [{"name": "%dx%d/%s/concrete-layout" % (r, c, a), "params": {"rows": r, "cols": c, "after": a, "pcap": 0}, "weight": 1} for (r, c) in ((2, 2), (3, 3), (5, 3), (4, 4)) for a in ("last", "O")]
    return out


def harness(ns, params):
    rows, cols, after, pcap = params["rows"], params["cols"], params["after"], params["pcap"]

    def run():
        core.OPTS["concretize"] = True
        ek = fresh_int("extra_kind", 0, len(DF.EXTRA_KINDS) - 1 if pcap == 0 else 3)  # the tab-indented comment: concrete-layout tasks (and C09)
        ep = fresh_int("extra_pos", 0, rows)
        crlf = fresh_bool("crlf")
        fnl = fresh_bool("final_newline")
        c = core.ctx()
        extra_kind = DF.EXTRA_KINDS[ek.__index__()]
        extra_pos = ep.__index__() if extra_kind != "none" else 0
        if extra_kind == "none":
            core.assume(z.eq_i(ep.e, 0))
        crlf_c, fnl_c = bool(crlf), bool(fnl)
        hdr = DF.header(cols)
        sect = DF.build_data_section(rows, cols, pcap, after, extra_kind, extra_pos, crlf_c, fnl_c)
        dlines = [l for l in sect if isinstance(l, SymStr)] if pcap else [" ".join(DF.token(i_, j_, cols) for j_ in range(cols)) for i_ in range(rows)]
        inputs = {"rows": rows, "cols": cols, "after": after, "extra_kind": ek, "extra_pos": ep, "crlf": crlf, "final_newline": fnl, "data_lines": dlines}
        c.inputs = inputs
        apply_exclusions(inputs)
        core.witness("extra-line-last-in-section", extra_kind != "none" and extra_pos == rows)
        core.witness("crlf", crlf_c)
        core.witness("no-final-newline", not fnl_c)
        core.witness("data-section-followed-by-another", after != "last")
        lines = hdr + sect
        terms = [("\r\n" if crlf_c else "\n")] * len(lines)
        if not fnl_c:
            terms[-1] = ""
        res = {}
        used = {"numpy": False}
        orig = ns.reader.read_data_section_iterative_numpy_engine

        def spy(*a, **k):
            r = orig(*a, **k)
            used["numpy"] = True
            return r

        ns.reader.read_data_section_iterative_numpy_engine = spy
        try:
            for eng in ("numpy", "normal"):
                las = ns.las.LASFile()
                try:
                    las.read(SymFile(lines, terms), engine=eng)
                    res[eng] = ("ok", DF.curves_as_lists(las), DF.header_snapshot(las), [cv.original_mnemonic for cv in list.__iter__(las.curves)])
                except Exception as e:
                    res[eng] = ("exc", type(e).__name__, repr(e)[:200])
        finally:
            ns.reader.read_data_section_iterative_numpy_engine = orig
        if used["numpy"]:
            core.witness("numpy-engine-produced-the-array")
        exp = DF.expected_matrix(rows, cols)
        obl = []
        for eng in ("numpy", "normal"):
            obl.append(("%s-engine-reads-the-file" % eng, res[eng][0] == "ok"))
            if res[eng][0] == "ok":
                obl.append(("%s-engine-values" % eng, DF.same_cols(res[eng][1], exp)))
        if res["numpy"][0] == "ok" and res["normal"][0] == "ok":
            obl.append(("engines-same-curves", DF.same_cols(res["numpy"][1], res["normal"][1])))
            obl.append(("engines-same-header", res["numpy"][2] == res["normal"][2] and res["numpy"][3] == res["normal"][3]))
        core.oblige_all(obl)
        return {"observed": {e: (res[e][0], res[e][1] if res[e][0] == "ok" else res[e][1]) for e in res}}

    return run


# ------------------------------------------------------------------------------ concrete oracle
def replay(i):
    import lasio

    rows, cols, after = i["rows"], i["cols"], i["after"]
    extra_kind = DF.EXTRA_KINDS[i["extra_kind"]]
    text = DF.concrete_text(DF.header(cols), rows, cols, i["data_lines"], after, extra_kind, i["extra_pos"], i["crlf"], i["final_newline"])
    res = {}
    for eng in ("numpy", "normal"):
        try:
            las = lasio.read(text, engine=eng)
            res[eng] = ("ok", DF.curves_as_lists(las), DF.header_snapshot(las), [cv.original_mnemonic for cv in las.curves])
        except Exception as e:
            res[eng] = ("exc", type(e).__name__, repr(e)[:200])
    exp = DF.expected_matrix(rows, cols)
    problems = []
    for eng in ("numpy", "normal"):
        if res[eng][0] != "ok":
            problems.append("engine=%s raised %s" % (eng, res[eng][2]))
        elif not DF.same_cols(res[eng][1], exp):
            problems.append("engine=%s read %r, the file holds %r" % (eng, res[eng][1], exp))
    if res["numpy"][0] == "ok" and res["normal"][0] == "ok" and (not DF.same_cols(res["numpy"][1], res["normal"][1]) or res["numpy"][2:] != res["normal"][2:]):
        problems.append("engines disagree: numpy %r, normal %r" % (res["numpy"][1], res["normal"][1]))
    return {"ok": not problems, "detail": ("; ".join(problems) + " for file %r" % text) if problems else "ok",
            "observed": {e: (res[e][0], res[e][1] if res[e][0] == "ok" else res[e][1]) for e in res}}


def validate():
    return symnp.validate_genfromtxt()
