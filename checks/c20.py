"""C20 - every file lasio opens is closed again, whatever fails and wherever.

Kernel: the real LASFile.read / write / to_csv, reader.open_file, open_with_codecs,
adhoc_test_encoding, get_encoding, executed over a stub file system.  The index k of the
low-level I/O operation that raises OSError is a solver variable (k = "none" included), so
one symbolic run covers every fault position of that call.
"""
import io as _io
import os as _os
from symlas import core, z, loader
from symlas.driver import apply_exclusions
from symlas.stubs import SymFile, OutFile
from symlas.values import fresh_int, SymInt

PROPERTY = "C20"
FUNCTIONS = [
    "lasio/las.py::LASFile.read",
    "lasio/las.py::LASFile.write",
    "lasio/las.py::LASFile.to_csv",
    "lasio/reader.py::open_file",
    "lasio/reader.py::open_with_codecs",
    "lasio/reader.py::adhoc_test_encoding",
    "lasio/reader.py::get_encoding",
    "lasio/reader.py::check_for_path_obj",
]
GOOD = ["~Version", "VERS. 2.0 : v", "WRAP. NO : w", "~Well", "NULL. -9 : n", "~Curve", "DEPT.M : d", "GR.API : g", "~A", "1 10", "2 20"]
CONTENTS = {
    "clean": GOOD,
    "no-sections": ["just text", "more text"],
    "bad-header-line": GOOD[:4] + ["no delimiter here"] + GOOD[4:],
    "reshape-error": GOOD[:-1] + ["2 20 30"],
    "with-bom-free-nonascii": GOOD[:4] + ["COMP. café : c"] + GOOD[4:],
}
CALLS = ["read-str", "read-path", "read-noautodetect", "read-encoding", "write-path", "csv-path", "write-fileobj", "csv-fileobj", "write-path-badversion", "csv-path-badoption", "csv-path-badoption2", "csv-path-ragged", "write-path-ragged", "csv-path-empty", "write-path-empty"]
BOUNDS = {
    "quick": {"calls": CALLS, "contents": ["clean", "no-sections", "bad-header-line", "reshape-error"], "fault_kinds": ["OSError"], "task_budget_s": 600},
    "thorough": {"calls": CALLS, "contents": list(CONTENTS), "fault_kinds": ["OSError", "UnicodeDecodeError"], "task_budget_s": 1800},
}
ASSUMPTIONS = [
    "file system, open/io.open, os.path.getsize and chardet are stubs; a fault is an exception raised by the k-th operation (open, read, readline, iteration step, seek, tell, write) on any handle; close() itself never faults",
    "file contents are the listed concrete texts; the fault index is symbolic and ranges over every operation of the run plus 'no fault'; write-side input-induced exceptions: an unsupported version, csv options the csv module rejects, curves of unequal length, an object without curves",
]
WITNESS_TARGETS = ["fault-injected", "no-fault-run", "input-induced-exception"]
EXCLUSIONS = {}


class Fault(object):
    def __init__(self, k, kind):
        self.k = k
        self.kind = kind
        self.count = 0
        self.fired = False

    def __call__(self, handle, op):
        if op == "close":
            return
        c = self.count
        self.count += 1
        if self.fired:
            return
        if self.k is not None and (self.k == c):
            self.fired = True
            if self.kind == "UnicodeDecodeError" and op in ("read", "readline", "next"):
                raise UnicodeDecodeError("stub", b"\xff", 0, 1, "injected")
            raise OSError("injected fault at operation %d (%s on %s)" % (c, op, handle.name))


class BinFile(object):
    def __init__(self, data, name, fault, registry):
        self.data = data
        self.name = name
        self.closed = False
        self.fault = fault
        self.ops = []
        registry.append(self)

    def read(self, n=-1):
        self.ops.append("read")
        self.fault(self, "read")
        return self.data if n is None or n < 0 else self.data[:n]

    def close(self):
        self.closed = True

    def __enter__(self):
        return self

    def __exit__(self, *a):
        self.close()
        return False


class FS(object):
    def __init__(self, lines, fault):
        self.lines = lines
        self.fault = fault
        self.opened = []  # every handle lasio opened through open()/io.open()
        self.written = []

    def open(self, filename, mode="r", encoding=None, errors=None, **kw):
        dummy = type("H", (), {"name": str(filename)})()
        self.fault(dummy, "open")
        if "b" in mode:
            data = ("\n".join(self.lines) + "\n").encode("utf-8")
            return BinFile(data, str(filename), self.fault, self.opened)
        if "w" in mode:
            return OutFile(name=str(filename), fault=self.fault, registry=self.opened)
        return SymFile(self.lines, name=str(filename), fault=self.fault, registry=self.opened)

    def getsize(self, filename):
        return len(("\n".join(self.lines) + "\n").encode("utf-8"))


def make_shims(fs):
    class IoShim(object):
        StringIO = _io.StringIO
        open = staticmethod(fs.open)

    class PathShim(object):
        getsize = staticmethod(fs.getsize)

        def __getattr__(self, k):
            return getattr(_os.path, k)

    class OsShim(object):
        path = PathShim()

        def __getattr__(self, k):
            return getattr(_os, k)

    class Chardet(object):
        @staticmethod
        def detect(raw):
            return {"encoding": "utf-8", "confidence": 0.99}

    return {"io": IoShim, "os": OsShim(), "chardet": Chardet, "open": fs.open}


def tasks(tier):
    b = BOUNDS[tier]
    out = []
    for call in b["calls"]:
        for content in (b["contents"] if call.startswith("read") else ["clean"]):
            for fk in b["fault_kinds"]:
                out.append({"name": "%s/%s/%s" % (call, content, fk), "params": {"call": call, "content": content, "fault_kind": fk}})
    if "UnicodeDecodeError" not in b["fault_kinds"]:
        # the encoding probes (explicit / ad hoc / autodetected) must close their handles when a read fails to decode
        for call in ("read-noautodetect", "read-str", "read-encoding"):
            out.append({"name": "%s/clean/UnicodeDecodeError" % call, "params": {"call": call, "content": "clean", "fault_kind": "UnicodeDecodeError"}})
    return out


def _do_call(nsL, call, fs, las_for_write):
    """performs the call; returns (exception or None, caller_supplied handle or None)"""
    supplied = None
    try:
        if call == "read-str":
            nsL.las.LASFile().read("data.las", engine="normal")
        elif call == "read-path":
            import pathlib

            nsL.las.LASFile().read(pathlib.Path("data.las"), engine="normal")
        elif call == "read-noautodetect":
            nsL.las.LASFile().read("data.las", engine="normal", autodetect_encoding=False)
        elif call == "read-encoding":
            nsL.las.LASFile().read("data.las", engine="normal", encoding="latin-1")
        elif call in ("write-path", "write-path-ragged", "write-path-empty"):
            las_for_write.write("out.las", version=2.0)
        elif call in ("csv-path", "csv-path-ragged", "csv-path-empty"):
            las_for_write.to_csv("out.csv")
        elif call == "write-path-badversion":
            las_for_write.write("out.las", version=3.0)  # rejected by the writer (AssertionError)
        elif call == "csv-path-badoption":
            las_for_write.to_csv("out.csv", delimiter=";;")  # rejected by the csv module (TypeError)
        elif call == "csv-path-badoption2":
            las_for_write.to_csv("out.csv", no_such_option=1)
        elif call == "write-fileobj":
            supplied = OutFile(name="caller", fault=fs.fault)
            las_for_write.write(supplied, version=2.0)
        elif call == "csv-fileobj":
            supplied = OutFile(name="caller", fault=fs.fault)
            las_for_write.to_csv(supplied)
    except Exception as e:
        return e, supplied
    return None, supplied


def _count_ops(call, content):
    """number of faultable operations of the clean (fault-free) run, measured on the real code path"""
    fault = Fault(None, "OSError")
    fs = FS(CONTENTS[content], fault)
    nsL = loader.load_lasio(extra_shims=make_shims(fs))
    las = _las_for_write(nsL, call) if not call.startswith("read") else None

    def run():
        _do_call(nsL, call, fs, las)
        return {}

    core.explore(run)
    return fault.count


def _las_for_write(nsL, call=""):
    """the object written: two curves; '-ragged': curves of unequal length (the data table cannot be stacked);
    '-empty': no curves at all"""
    import numpy as np

    las = nsL.las.LASFile()
    if call.endswith("-empty"):
        return las
    las.append_curve("DEPT", np.array([1.0, 2.0, 3.0]), unit="M")
    las.append_curve("GR", np.array([10.0, np.nan] if call.endswith("-ragged") else [10.0, np.nan, 30.0]), unit="API")
    return las


def harness(ns, params):
    call, content, fk = params["call"], params["content"], params["fault_kind"]
    nops = _count_ops(call, content)
    state = {}

    def run():
        k = fresh_int("k", 0, nops)  # k == nops: no fault
        fault = Fault(k, fk)
        fs = FS(CONTENTS[content], fault)
        nsL = loader.load_lasio(extra_shims=make_shims(fs))
        las = None
        if not call.startswith("read"):
            # building the object must not consume fault slots
            fault.k = None
            las = _las_for_write(nsL, call)
            fault.k = k
            fault.count = 0
        c = core.ctx()
        c.inputs = {"call": call, "content": content, "fault_kind": fk, "k": k, "nops": nops}
        apply_exclusions(c.inputs)
        exc, supplied = _do_call(nsL, call, fs, las)
        if fault.fired:
            core.witness("fault-injected")
        else:
            core.witness("no-fault-run")
            if exc is not None:
                core.witness("input-induced-exception")
        leaked = [h.name + ":" + type(h).__name__ for h in fs.opened if not h.closed]
        core.oblige("every-handle-lasio-opened-is-closed", not leaked, info=leaked)
        if supplied is not None:
            core.oblige("caller-supplied-file-left-open", not supplied.closed)
        if fault.fired:
            core.oblige("fault-propagates-or-is-handled", True)
        return {"observed": {"raised": type(exc).__name__ if exc is not None else None, "opened": len(fs.opened), "leaked": leaked}}

    return run


# ------------------------------------------------------------------------------ concrete oracle
def replay(i):
    """the same scenario on the real, uninstrumented lasio with patched open/io.open"""
    import builtins
    import importlib
    import unittest.mock as mock
    import numpy as np
    import lasio
    import lasio.reader
    import lasio.las

    call, content, fk, k = i["call"], i["content"], i["fault_kind"], i["k"]
    fault = Fault(None, fk)
    fs = FS(CONTENTS[content], fault)
    shims = make_shims(fs)
    las = None
    if not call.startswith("read"):
        class NS0(object):
            las = lasio.las

        las = _las_for_write(NS0, call)
    fault.k = k
    fault.count = 0

    class NS(object):
        pass

    nsL = NS()
    nsL.las = lasio.las
    try:
        import chardet  # noqa: F401

        have_chardet = True
    except Exception:
        have_chardet = False
    patches = [mock.patch.object(lasio.reader, "io", shims["io"]), mock.patch.object(lasio.reader, "os", shims["os"]),
               mock.patch.object(lasio.reader, "open", fs.open, create=True), mock.patch.object(lasio.las, "open", fs.open, create=True),
               mock.patch.dict("sys.modules", {"chardet": shims["chardet"]})]
    for p in patches:
        p.start()
    try:
        exc, supplied = _do_call(nsL, call, fs, las)
    finally:
        for p in patches:
            p.stop()
    leaked = [h.name + ":" + type(h).__name__ for h in fs.opened if not h.closed]
    ok = not leaked and (supplied is None or not supplied.closed)
    return {"ok": ok, "detail": "call %s on %s with fault %s at op %s/%s: raised %r; handles opened %d, left open %r; caller file closed=%s" % (call, content, fk, k, i.get("nops"), exc, len(fs.opened), leaked, None if supplied is None else supplied.closed),
            "observed": {"raised": type(exc).__name__ if exc is not None else None, "opened": len(fs.opened), "leaked": leaked}}
