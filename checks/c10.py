"""C10 - the result is independent of input channel and encoding; reads are pure.

Kernels: reader.check_for_path_obj / open_file / open_with_codecs / adhoc_test_encoding /
get_encoding and LASFile.__init__/read/defaults.get_default_items, over a stub file system.
(a) channels: one symbolic LAS text (a header value with symbolic Latin-1 characters, symbolic
line terminators) is supplied as path string, pathlib.Path, open text file, StringIO-like object
and multi-line string; (b) encoding selection: the first raw bytes of the file, the encoding=
argument, autodetect_encoding and chardet's answer are symbolic; (c) purity: read, mutate the
result by a symbolic operation, read again.
"""
import io as _io
import os as _os
import numpy as np
from symlas import core, z, loader
from symlas.driver import apply_exclusions
from symlas.stubs import SymFile, OutFile
from symlas.values import SymStr, SymInt, B, concat, fresh_int, fresh_bool
from checks.common import allc, printable, is_stripped, not_char
from checks import datafile as DF

PROPERTY = "C10"
FUNCTIONS = [
    "lasio/reader.py::check_for_path_obj",
    "lasio/reader.py::open_file",
    "lasio/reader.py::open_with_codecs",
    "lasio/reader.py::adhoc_test_encoding",
    "lasio/reader.py::get_encoding",
    "lasio/las.py::LASFile.__init__",
    "lasio/las.py::LASFile.read",
    "lasio/defaults.py::get_default_items",
]
BOUNDS = {
    "quick": {"value_cap": 2, "parts": ["channels", "encoding", "purity"], "task_budget_s": 900},
    "thorough": {"value_cap": 4, "parts": ["channels", "encoding", "purity"], "task_budget_s": 3000},
}
ASSUMPTIONS = [
    "file system, open/io.open, os.path.getsize, chardet are stubs; decoding is the identity on the Latin-1 alphabet (codec correctness and OS newline translation are outside: text files deliver '\\n', strings keep '\\r\\n')",
    "channels: the text has >= 2 lines and its first line is a section title (texts whose first line looks like a URL are not LAS files)",
    "the symbolic part of the text is one ~Well value (printable Latin-1 incl. non-ASCII letters, no ':')",
]
WITNESS_TARGETS = ["non-ascii-header-character", "bom-detected", "explicit-encoding", "chardet-used", "adhoc-encoding-used", "mutation-then-reread", "line-break-like-character-in-header-text", "text-without-version-or-well-section"]
EXCLUSIONS = {}
CHANNELS = ["string", "stringio", "fileobj", "path", "pathlib"]
MUTATIONS = ["append-well-item", "assign-value", "rename-curve", "set_data-names", "delete-curve", "change-array", "reads-with-other-options", "write"]
OMITS = ["none", "version", "well"]


def tasks(tier):
    b = BOUNDS[tier]
    out = [{"name": "channels", "params": {"part": "channels", "vcap": max(3, b["value_cap"])}, "weight": 3}]
    for enc_arg in (None, "latin-1", "utf-16"):
        for auto in (True, False, "chardet"):
            out.append({"name": "encoding/%s/%s" % (enc_arg, auto), "params": {"part": "encoding", "enc": enc_arg, "auto": auto}})
    for m in MUTATIONS:
        out.append({"name": "purity/%s" % m, "params": {"part": "purity", "mutation": m, "vcap": b["value_cap"]}})
    return out


def text_lines(value, omit="none"):
    """omit: 'none', 'version' (no ~Version section: the result keeps lasio's default items for it) or
    'well' (no ~Well section; the symbolic value then sits in ~Parameter)"""
    comp = concat(["COMP. ", value, " : company"]) if isinstance(value, SymStr) else "COMP. " + value + " : company"
    ver = [] if omit == "version" else ["~Version", "VERS. 2.0 : v", "WRAP. NO : w"]
    well = ["~Parameter", comp] if omit == "well" else ["~Well", "STRT.M 1 : s", "STOP.M 2 : e", "STEP.M 1 : i", "NULL. -9 : n", "Fld. North Field : mixed-case mnemonic", comp]
    return ver + well + ["~Curve", "DEPT.M : d", "GR.API : g", "~A", "1 10", "2 -9"]


class Handle(SymFile):
    pass


class FS(object):
    def __init__(self, lines):
        self.lines = lines
        self.opened = []
        self.open_calls = []

    def open(self, filename, mode="r", encoding=None, errors=None, **kw):
        self.open_calls.append({"filename": filename, "mode": mode, "encoding": encoding, "errors": errors})
        if "b" in mode:
            return Bin(self, str(filename))
        return Handle(self.lines, name=str(filename), registry=self.opened)  # text mode: universal newlines -> '\n'

    def getsize(self, filename):
        return 1000


class Bin(object):
    def __init__(self, fs, name):
        self.fs = fs
        self.closed = False

    def read(self, n=-1):
        raw = self.fs.raw
        return raw if n is None or n < 0 else raw[:n]

    def __enter__(self):
        return self

    def __exit__(self, *a):
        self.closed = True
        return False


def make_shims(fs, chardet_answer="ascii"):
    def _stringio(x="", *a, **k):
        from symlas.stubs import SymText

        if isinstance(x, MultiLine):
            return SymFile(x.lines, [x.nl] * len(x.lines))
        if isinstance(x, SymText):  # a text re-assembled with "\n".join(...)
            return SymFile(x.lines, ["\n"] * (len(x.lines) - 1) + [""])
        return _io.StringIO(x, *a, **k)

    class IoShim(object):
        StringIO = staticmethod(_stringio)
        open = staticmethod(fs.open)

    class PathShim(object):
        getsize = staticmethod(fs.getsize)

        def __getattr__(self, k):
            return getattr(_os.path, k)

    class OsShim(object):
        path = PathShim()

        def __getattr__(self, k):
            return getattr(_os, k)

    class Chardet(object):
        @staticmethod
        def detect(raw):
            fs.chardet_called = True
            return {"encoding": chardet_answer, "confidence": 0.5}

    return {"io": IoShim, "os": OsShim(), "chardet": Chardet, "open": fs.open}


def snap(las):
    return DF.header_snapshot(las), DF.curves_as_lists(las), [cv.original_mnemonic for cv in list.__iter__(las.curves)], las.index_unit


def same_header(a, b):
    from checks.c09 import same_snapshot

    return same_snapshot((a, [], []), (b, [], []))


def snap_eq(a, b):
    from checks.c09 import same_snapshot

    return z.And(same_snapshot(a[:3], b[:3]), a[3] == b[3])


# ------------------------------------------------------------------------------ (a) channels
def h_channels(ns_unused, p):
    def run():
        A = core.assume
        core.OPTS["concretize"] = True
        v = SymStr.fresh("val", p["vcap"], minlen=1)
        # printable Latin-1 plus the characters str.splitlines() treats as line ends although files do not
        # (0x85 is what byte 0x85 of a latin-1 file decodes to)
        A(allc(v, lambda c: z.And(z.Or(printable(c), z.in_set_c(c, (0x0B, 0x0C, 0x1C, 0x1D, 0x1E, 0x85))), not_char(":")(c))))
        A(is_stripped(v))
        A(z.Or(z.in_range_c(v.chars[0], 65, 90), z.in_range_c(v.chars[0], 97, 122), z.in_range_c(v.chars[0], 0xC0, 0xFE)))  # a text value (numeric literals are C08's subject)
        crlf = fresh_bool("crlf")
        core.witness("line-break-like-character-in-header-text", z.Or([z.And(v.inlen(i), z.in_set_c(v.chars[i], (0x0B, 0x0C, 0x1C, 0x1D, 0x1E, 0x85))) for i in range(v.cap)]))
        inputs = {"part": "channels", "value": v, "crlf": crlf}
        cx = core.ctx()
        cx.inputs = inputs
        apply_exclusions(inputs)
        core.witness("non-ascii-header-character", z.Or([z.And(v.inlen(i), z.in_range_c(v.chars[i], 161, 254)) for i in range(v.cap)]))
        crlf_c = bool(crlf)
        lines = text_lines(v)
        results = {}
        for ch in CHANNELS:
            fs = FS(lines)
            fs.raw = b"~Version"
            nsL = loader.load_lasio(extra_shims=make_shims(fs))
            nl = "\r\n" if crlf_c else "\n"
            try:
                if ch == "string":
                    from symlas.stubs import SymText

                    # a multi-line str: open_file() splits it and wraps it in StringIO -> modelled by the line stub
                    las = nsL.las.LASFile()
                    file_ref = MultiLine(lines, nl)
                    las.read(file_ref)
                elif ch == "stringio":
                    las = nsL.las.LASFile()
                    las.read(SymFile(lines, [nl] * len(lines)))
                elif ch == "fileobj":
                    las = nsL.las.LASFile()
                    las.read(SymFile(lines))
                elif ch == "path":
                    las = nsL.las.LASFile()
                    las.read("data.las")
                else:
                    import pathlib

                    las = nsL.las.LASFile()
                    las.read(pathlib.Path("data.las"))
                results[ch] = ("ok", snap(las))
            except Exception as e:
                results[ch] = ("exc", repr(e)[:200])
        obl = []
        for ch in CHANNELS:
            obl.append(("channel-%s-reads" % ch, results[ch][0] == "ok"))
        base = results["fileobj"]
        if base[0] == "ok":
            for ch in CHANNELS:
                if ch != "fileobj" and results[ch][0] == "ok":
                    obl.append(("channel-%s-equals-fileobj" % ch, snap_eq(results[ch][1], base[1])))
            comp = [it for it in base[1][0]["Well"] if it[0] == "COMP"]
            from symlas.symnum import SymNum

            got = comp[0][2] if comp else None
            obl.append(("header-text-preserved", len(comp) == 1 and (B_eq(got.text if isinstance(got, SymNum) else got, v))))
        core.oblige_all(obl)
        return {"observed": {ch: results[ch][0] for ch in CHANNELS}}

    return run


def B_eq(a, b):
    if isinstance(a, (str, SymStr)) and isinstance(b, (str, SymStr)):
        return SymStr.lift(a).eq_expr(b)
    return False


class MultiLine(object):
    """stands for a multi-line str given to read(): isinstance(x, str) is true for it in the
    instrumented code (see loader.b_isinstance hook), splitlines() gives the lines, and
    StringIO(x) serves them with their terminators"""

    __symstr_like__ = True

    def __init__(self, lines, nl):
        self.lines = lines
        self.nl = nl

    BREAKS = "\x0b\x0c\x1c\x1d\x1e\x85"

    def splitlines(self):
        """str.splitlines() also breaks at VT, FF, FS, GS, RS and NEL (U+0085), which a file
        object or StringIO does not treat as line ends"""
        from symlas import symre

        out = []
        for ln in self.lines:
            if isinstance(ln, SymStr):
                out += symre.split("[" + self.BREAKS + "]", ln)
            else:
                out += ln.splitlines() or [""]
        return out


# ------------------------------------------------------------------------------ (b) encoding selection
def h_encoding(ns_unused, p):
    enc_arg, auto = p["enc"], p["auto"]

    def run():
        A = core.assume
        raw = SymStr.fresh("raw", 4, fixed_len=4)
        inputs = {"part": "encoding", "enc": enc_arg, "auto": auto, "raw": raw}
        cx = core.ctx()
        cx.inputs = inputs
        apply_exclusions(inputs)
        fs = FS(text_lines("ACME"))
        fs.raw = raw
        fs.chardet_called = False
        nsL = loader.load_lasio(extra_shims=make_shims(fs, chardet_answer="koi8-r"))
        kw = {}
        if enc_arg is not None:
            kw["encoding"] = enc_arg
        try:
            fobj, enc = nsL.reader.open_with_codecs("data.las", autodetect_encoding=auto, **kw)
        except Exception as e:
            core.oblige("open-does-not-raise", False, info=repr(e)[:200])
            return {"observed": {"raised": type(e).__name__}}
        bom = z.And(z.eq_c(raw.chars[0], 0xEF), z.eq_c(raw.chars[1], 0xBB), z.eq_c(raw.chars[2], 0xBF))
        text_opens = [c for c in fs.open_calls if "b" not in c["mode"]]
        final = text_opens[-1] if text_opens else None
        obl = [("file-opened-in-text-mode", final is not None)]
        if final is not None:
            used = final["encoding"]
            obl.append(("returned-encoding-is-the-one-used", used == enc))
            if used == "utf-8-sig":
                core.witness("bom-detected")
                obl.append(("utf-8-sig-only-with-bom", bom))
            else:
                obl.append(("bom-implies-utf-8-sig", z.Not(bom)))
                if enc_arg is not None:
                    core.witness("explicit-encoding")
                    obl.append(("explicit-encoding-reaches-io.open", used == enc_arg))
                elif auto in (True, "chardet"):
                    core.witness("chardet-used")
                    obl.append(("chardet-answer-used", used == "koi8-r" and fs.chardet_called))
                else:
                    core.witness("adhoc-encoding-used")
                    obl.append(("adhoc-encoding-is-a-tested-one", used in ("ascii", "windows-1252", "latin-1")))
            obl.append(("errors-policy-passed", final["errors"] == "replace"))
        obl.append(("sniffing-handles-closed", all(h.closed for h in fs.opened if h is not fobj)))
        core.oblige_all(obl)
        return {"observed": {"encoding": enc}}

    return run


# ------------------------------------------------------------------------------ (c) purity
def h_purity(ns, p):
    mut = p["mutation"]

    def run():
        A = core.assume
        core.OPTS["concretize"] = True
        v = SymStr.fresh("val", p["vcap"], minlen=1)
        A(allc(v, lambda c: z.And(printable(c), not_char(":")(c))))
        A(is_stripped(v))
        A(z.Or(z.in_range_c(v.chars[0], 65, 90), z.in_range_c(v.chars[0], 97, 122), z.in_range_c(v.chars[0], 0xC0, 0xFE)))
        nm = SymStr.fresh("nm", 2, minlen=1)
        A(allc(nm, lambda c: z.in_range_c(c, 65, 90)))
        om = fresh_int("omitted_section", 0, 2)
        inputs = {"part": "purity", "mutation": mut, "value": v, "name": nm, "omitted_section": om}
        cx = core.ctx()
        cx.inputs = inputs
        apply_exclusions(inputs)
        omit = OMITS[om.__index__()]
        core.witness("text-without-version-or-well-section", omit != "none")
        lines = text_lines(v, omit)
        fresh0 = DF.header_snapshot(ns.las.LASFile())
        las1 = ns.las.LASFile()
        las1.read(SymFile(lines), mnemonic_case="preserve")
        s1 = snap(las1)
        # a symbolic mutation of the first result
        HeaderItem, CurveItem = ns.items.HeaderItem, ns.items.CurveItem
        if mut == "append-well-item":
            las1.well.append(HeaderItem(nm, "", "x", "y"))
            las1.params.append(HeaderItem(nm, "", 1, ""))
        elif mut == "assign-value":
            las1.well["NULL"].value = 0
            las1.version["VERS"].value = 1.2
            las1.version["WRAP"].descr = nm
            las1.well["COMP"].value = nm
            las1.well["STRT"].descr = nm
        elif mut == "write":
            ns.writer.write(las1, OutFile(name="<w>"), version=1.2, STRT=5, STEP=7)
        elif mut == "rename-curve":
            list.__getitem__(las1.curves, 1).mnemonic = nm
        elif mut == "set_data-names":
            las1.set_data(np.array([[5.0, 6.0, 7.0], [8.0, 9.0, 10.0]]), names=[nm, nm, nm])
        elif mut == "delete-curve":
            las1.delete_curve(ix=1)
            las1.sections["Other"] = "changed"
        elif mut == "change-array":
            list.__getitem__(las1.curves, 0).data[0] = 99.0
            las1.index_unit = "FT"
        elif mut == "reads-with-other-options":
            # interleaved reads of the same text under other options must not leak into later reads
            for mc in ("lower", "preserve", "upper"):
                ns.las.LASFile().read(SymFile(lines), mnemonic_case=mc, engine="normal", ignore_header_errors=True)
        core.witness("mutation-then-reread")
        other = ns.las.LASFile()  # an unrelated object created in between
        other.append_curve("Z", np.array([1.0]))
        las2 = ns.las.LASFile()
        las2.read(SymFile(lines), mnemonic_case="preserve")
        s2 = snap(las2)
        fresh = ns.las.LASFile()
        obl = [("second-read-equals-first", snap_eq(s2, s1)),
               ("fresh-object-equals-the-fresh-object-before", same_header(DF.header_snapshot(fresh), fresh0)),
               ("fresh-object-has-default-header", len(list(list.__iter__(fresh.well))) == 16 and len(list(list.__iter__(fresh.curves))) == 0 and len(list(list.__iter__(fresh.params))) == 0 and fresh.well["NULL"].value == -9999.25 and fresh.version["VERS"].value == 2.0)]
        core.oblige_all(obl)
        return {"observed": {"curves": s2[2]}}

    return run


def harness(ns, params):
    return {"channels": h_channels, "encoding": h_encoding, "purity": h_purity}[params["part"]](ns, params)


# ------------------------------------------------------------------------------ concrete oracle
def replay(i):
    import codecs
    import os
    import tempfile
    import lasio

    part = i["part"]
    problems = []
    if part == "channels":
        v, crlf = i["value"], i["crlf"]
        nl = "\r\n" if crlf else "\n"
        text = nl.join(text_lines(v)) + nl
        d = tempfile.mkdtemp(prefix="c10_")
        path = os.path.join(d, "data.las")
        with open(path, "w", encoding="utf-8", newline="") as f:
            f.write(text)
        res = {}
        try:
            for ch in CHANNELS:
                try:
                    if ch == "string":
                        las = lasio.read(text)
                    elif ch == "stringio":
                        las = lasio.read(_io.StringIO(text))
                    elif ch == "fileobj":
                        with open(path, encoding="utf-8") as f:
                            las = lasio.read(f)
                    elif ch == "path":
                        las = lasio.read(path, encoding="utf-8")
                    else:
                        import pathlib

                        las = lasio.read(pathlib.Path(path), encoding="utf-8")
                    res[ch] = ("ok", snap(las))
                except Exception as e:
                    res[ch] = ("exc", repr(e)[:200])
        finally:
            os.remove(path)
            os.rmdir(d)
        for ch in CHANNELS:
            if res[ch][0] != "ok":
                problems.append("channel %s raised %s" % (ch, res[ch][1]))
            elif res["fileobj"][0] == "ok" and not bool(snap_eq(res[ch][1], res["fileobj"][1])):
                problems.append("channel %s gives %r, file object gives %r" % (ch, res[ch][1][0].get("Well"), res["fileobj"][1][0].get("Well")))
        if res["fileobj"][0] == "ok":
            comp = [it for it in res["fileobj"][1][0]["Well"] if it[0] == "COMP"]
            if not comp or comp[0][2] != v:
                problems.append("COMP value %r read as %r" % (v, comp))
        obs = {ch: res[ch][0] for ch in CHANNELS}
    elif part == "encoding":
        import unittest.mock as mock
        import lasio.reader

        fs = FS(text_lines("ACME"))
        fs.raw = i["raw"].encode("latin-1")
        fs.chardet_called = False
        shims = make_shims(fs, chardet_answer="koi8-r")
        kw = {}
        if i["enc"] is not None:
            kw["encoding"] = i["enc"]
        patches = [mock.patch.object(lasio.reader, "io", shims["io"]), mock.patch.object(lasio.reader, "os", shims["os"]), mock.patch.object(lasio.reader, "open", fs.open, create=True),
                   mock.patch.dict("sys.modules", {"chardet": shims["chardet"]})]
        for p_ in patches:
            p_.start()
        try:
            fobj, enc = lasio.reader.open_with_codecs("data.las", autodetect_encoding=i["auto"], **kw)
        except Exception as e:
            for p_ in patches:
                p_.stop()
            return {"ok": False, "detail": "open_with_codecs raised %r" % (e,), "observed": {"raised": type(e).__name__}}
        for p_ in patches:
            p_.stop()
        bom = fs.raw.startswith(codecs.BOM_UTF8)
        final = [c for c in fs.open_calls if "b" not in c["mode"]][-1]
        used = final["encoding"]
        if used != enc:
            problems.append("returned encoding %r, opened with %r" % (enc, used))
        if bom != (used == "utf-8-sig"):
            problems.append("raw %r (BOM=%s) opened with %r" % (fs.raw, bom, used))
        if not bom:
            if i["enc"] is not None and used != i["enc"]:
                problems.append("encoding=%r argument replaced by %r" % (i["enc"], used))
            elif i["enc"] is None and i["auto"] in (True, "chardet") and used != "koi8-r":
                problems.append("chardet answer ignored: %r" % (used,))
        if final["errors"] != "replace":
            problems.append("errors policy %r" % (final["errors"],))
        obs = {"encoding": enc}
    else:
        v, nm, mut = i["value"], i["name"], i["mutation"]
        text = "\n".join(text_lines(v, OMITS[i.get("omitted_section", 0)])) + "\n"
        fresh0 = DF.header_snapshot(lasio.LASFile())
        las1 = lasio.read(text, mnemonic_case="preserve")
        s1 = snap(las1)
        if mut == "append-well-item":
            las1.well.append(lasio.HeaderItem(nm, "", "x", "y"))
            las1.params.append(lasio.HeaderItem(nm, "", 1, ""))
        elif mut == "assign-value":
            las1.well["NULL"].value = 0
            las1.version["VERS"].value = 1.2
            las1.version["WRAP"].descr = nm
            las1.well["COMP"].value = nm
            las1.well["STRT"].descr = nm
        elif mut == "write":
            import io
            las1.write(io.StringIO(), version=1.2, STRT=5, STEP=7)
        elif mut == "rename-curve":
            las1.curves[1].mnemonic = nm
        elif mut == "set_data-names":
            las1.set_data(np.array([[5.0, 6.0, 7.0], [8.0, 9.0, 10.0]]), names=[nm, nm, nm])
        elif mut == "delete-curve":
            las1.delete_curve(ix=1)
            las1.sections["Other"] = "changed"
        elif mut == "change-array":
            las1.curves[0].data[0] = 99.0
            las1.index_unit = "FT"
        elif mut == "reads-with-other-options":
            for mc in ("lower", "preserve", "upper"):
                lasio.read(text, mnemonic_case=mc, engine="normal", ignore_header_errors=True)
        other = lasio.LASFile()
        other.append_curve("Z", np.array([1.0]))
        las2 = lasio.read(text, mnemonic_case="preserve")
        s2 = snap(las2)
        if not bool(snap_eq(s2, s1)):
            problems.append("second read differs from the first: %r vs %r" % (s2, s1))
        fresh = lasio.LASFile()
        if not bool(same_header(DF.header_snapshot(fresh), fresh0)):
            problems.append("a fresh LASFile differs from one created before the mutation: %r vs %r" % (DF.header_snapshot(fresh), fresh0))
        if len(fresh.well) != 16 or len(fresh.curves) or len(fresh.params) or fresh.well["NULL"].value != -9999.25:
            problems.append("a fresh LASFile no longer has the default header")
        obs = {"curves": s2[2]}
    return {"ok": not problems, "detail": "; ".join(problems) or "ok", "observed": obs}
