"""C14 - the curve collection behaves like an ordered list model under every edit history.

Kernel: the real LASFile curve methods (append_curve, insert_curve, delete_curve,
update_curve, replace_curve_item, __setitem__, set_data, keys/values/items/index/data/
__getitem__) on top of the real SectionItems, under histories whose operation kinds,
positions, names and options are solver variables; a plain Python list of
(name, unit, value, descr, array) is run alongside as the reference model.
"""
import numpy as np
from symlas import core, z
from symlas.driver import apply_exclusions
from symlas.values import SymStr, SymInt, B, fresh_int, fresh_bool
from checks.common import allc

PROPERTY = "C14"
FUNCTIONS = [
    "lasio/las.py::LASFile.append_curve",
    "lasio/las.py::LASFile.insert_curve",
    "lasio/las.py::LASFile.insert_curve_item",
    "lasio/las.py::LASFile.append_curve_item",
    "lasio/las.py::LASFile.delete_curve",
    "lasio/las.py::LASFile.update_curve",
    "lasio/las.py::LASFile.replace_curve_item",
    "lasio/las.py::LASFile.__setitem__",
    "lasio/las.py::LASFile.__getitem__",
    "lasio/las.py::LASFile.set_data",
    "lasio/las.py::LASFile.keys",
    "lasio/las.py::LASFile.values",
    "lasio/las.py::LASFile.items",
    "lasio/las.py::LASFile.data",
    "lasio/las.py::LASFile.index",
]
OPS = ["append", "insert", "delete_ix", "delete_mn", "update_ix", "update_mn", "replace_item", "setitem_arr", "setitem_item", "set_data"]
BOUNDS = {
    "quick": {"history_len": 2, "starts": ["empty", "two", "two-transforms"], "ops": OPS, "names": "'', 'A', 'B'", "task_budget_s": 600},
    "thorough": {"history_len": 3, "starts": ["empty", "two", "two-transforms"], "ops": OPS, "names": "'', 'A', 'B'", "task_budget_s": 3000, "max_paths": 1000000},
}
ASSUMPTIONS = [
    "arrays are concrete 1-D float arrays of length 2 with distinct contents; 2-D arrays given to set_data are as wide as the curve list or one or two columns wider",
    "names: '', 'A', 'B' (so existing / new / duplicate / blank names all occur); in the case-normalised start state (as after read with mnemonic_case upper/lower) also 'a'; positions: every list position incl. negatives and both ends",
    "operations addressed by mnemonic use a session name that exists (taken from keys()) or, for item assignment, also a new name",
    "set_data_from_df / pandas are outside (not claimed)",
]
WITNESS_TARGETS = ["duplicate-names-in-history", "negative-position", "set_data-wider-array", "set_data-two-columns-wider", "set_data-truncate", "set_data-after-un-duplication"]
EXCLUSIONS = {}


def tasks(tier):
    b = BOUNDS[tier]
    out = []
    for st in b["starts"]:
        for first in b["ops"]:
            if st == "empty" and first in ("delete_ix", "delete_mn", "update_ix", "update_mn", "replace_item"):
                continue
            k = b["history_len"] if st != "two-transforms" else 2
            if k >= 3:
                # histories of three operations: one task per (first, second) operation kind (independent cases, run in parallel)
                for second in b["ops"]:
                    out.append({"name": "%s/%s/%s" % (st, first, second), "params": {"start": st, "first": first, "second": second, "k": k}})
            else:
                out.append({"name": "%s/%s" % (st, first), "params": {"start": st, "first": first, "k": k}})
    return out


def arr(t, j=0):
    return np.array([100.0 * t + 10 * j + 1, 100.0 * t + 10 * j + 2])


def harness(ns, params):
    start, first, K = params["start"], params["first"], params["k"]
    CurveItem = ns.items.CurveItem

    def run():
        A = core.assume
        inputs = {"start": start, "ops": [], "names": [], "pos": [], "sel": [], "flags": []}
        c = core.ctx()
        c.inputs = inputs
        apply_exclusions(inputs)
        las = ns.las.LASFile()
        other = ns.las.LASFile()
        other.append_curve("O", arr(9), unit="ou")
        model = []
        if start in ("two", "two-transforms"):
            las.append_curve("DEPT", arr(7, 0), unit="M", descr="depth")
            las.append_curve("A", arr(7, 1), unit="ua", descr="first", value="va")
            model = [["DEPT", "M", "", "depth", arr(7, 0)], ["A", "ua", "va", "first", arr(7, 1)]]
        if start == "two-transforms":
            las.curves.mnemonic_transforms = True  # as in a file read with mnemonic_case upper/lower: lookups ignore case
        obs = []
        for t in range(K):
            n = len(model)
            valid = [o for o in range(len(OPS)) if n > 0 or OPS[o] in ("append", "insert", "setitem_arr", "setitem_item", "set_data")]
            if t == 0:
                op = first
            elif t == 1 and params.get("second"):
                op = params["second"]
                if OPS.index(op) not in valid:
                    raise core.Abort()  # e.g. a deletion from an empty list: not a history
            else:
                oi = fresh_int("op%d" % t, 0, len(valid) - 1)
                op = OPS[valid[oi.__index__()]]
            nm = SymStr.fresh("n%d" % t, 1)
            A(allc(nm, lambda ch: z.in_set_c(ch, (65, 66, 97) if start == "two-transforms" else (65, 66))))
            inputs["ops"].append(op)
            inputs["names"].append(nm)
            pos = fresh_int("p%d" % t, -n - 1, n + 1)
            sel = fresh_int("s%d" % t, 0, 3)
            flg = fresh_bool("f%d" % t)
            inputs["pos"].append(pos)
            inputs["sel"].append(sel)
            inputs["flags"].append(flg)
            keys_before = las.keys()
            try:
                if op == "append":
                    las.append_curve(nm, arr(t), unit="u%d" % t, descr="d%d" % t, value="v%d" % t)
                    model.append([nm, "u%d" % t, "v%d" % t, "d%d" % t, arr(t)])
                elif op == "insert":
                    ix = pos.__index__()
                    core.witness("negative-position", ix < 0)
                    las.insert_curve(ix, nm, arr(t), unit="u%d" % t, descr="d%d" % t, value="v%d" % t)
                    model.insert(ix, [nm, "u%d" % t, "v%d" % t, "d%d" % t, arr(t)])
                elif op == "delete_ix":
                    A(z.And(z.ge(pos.e, -n), z.lt(pos.e, n)))
                    ix = pos.__index__()
                    las.delete_curve(ix=ix)
                    del model[ix]
                elif op == "delete_mn":
                    A(z.And(z.ge(pos.e, 0), z.lt(pos.e, n)))
                    j = pos.__index__()
                    key = keys_before[j]
                    tgt = _first_index(keys_before, key)
                    las.delete_curve(mnemonic=key)
                    del model[tgt]
                elif op == "update_ix":
                    A(z.And(z.ge(pos.e, -n), z.lt(pos.e, n)))
                    ix = pos.__index__()
                    las.update_curve(ix=ix, data=arr(t), unit="u%d" % t, descr="d%d" % t)
                    model[ix][1], model[ix][3], model[ix][4] = "u%d" % t, "d%d" % t, arr(t)
                elif op == "update_mn":
                    A(z.And(z.ge(pos.e, 0), z.lt(pos.e, n)))
                    j = pos.__index__()
                    key = keys_before[j]
                    tgt = _first_index(keys_before, key)
                    las.update_curve(mnemonic=key, data=arr(t), value="v%d" % t)
                    model[tgt][2], model[tgt][4] = "v%d" % t, arr(t)
                elif op == "replace_item":
                    A(z.And(z.ge(pos.e, -n), z.lt(pos.e, n)))
                    ix = pos.__index__()
                    core.witness("negative-position", ix < 0)
                    las.replace_curve_item(ix, CurveItem(nm, "u%d" % t, "v%d" % t, "d%d" % t, arr(t)))
                    model[ix] = [nm, "u%d" % t, "v%d" % t, "d%d" % t, arr(t)]
                elif op == "setitem_arr":
                    # key: an existing session name (sel < n) or the new name nm
                    A(z.And(z.ge(pos.e, 0), z.le(pos.e, n)))
                    j = pos.__index__()
                    if j < n:
                        key = keys_before[j]
                        tgt = _first_index(keys_before, key)
                        las[key] = arr(t)
                        model[tgt][4] = arr(t)
                    else:
                        present = _first_index(keys_before, nm)
                        las[nm] = arr(t)
                        if present is None:
                            model.append([nm, "", "", "", arr(t)])
                        else:
                            model[present][4] = arr(t)
                elif op == "setitem_item":
                    A(z.And(z.ge(pos.e, 0), z.le(pos.e, n)))
                    j = pos.__index__()
                    item = CurveItem(nm, "u%d" % t, "v%d" % t, "d%d" % t, arr(t))
                    key = item.mnemonic
                    present = _first_index(keys_before, key)
                    las[key] = item
                    if present is None:
                        model.append([nm, "u%d" % t, "v%d" % t, "d%d" % t, arr(t)])
                    else:
                        model[present] = [nm, "u%d" % t, "v%d" % t, "d%d" % t, arr(t)]
                elif op == "set_data":
                    ext = fresh_int("x%d" % t, 0, 2)
                    inputs.setdefault("extra", {})[str(t)] = ext
                    A(z.Or(B(flg), z.eq_i(ext.e, 0)))  # flag off: as wide as the curve list
                    wider = bool(flg)
                    truncate = sel.__index__() == 1
                    width = n + (max(1, ext.__index__()) if wider else 0)
                    if width == 0:
                        width = 1
                    data = np.array([[1000.0 * t + 10 * jj + r for jj in range(width)] for r in range(2)])
                    s = sel.__index__()
                    names = None
                    if s == 2:
                        names = [nm]  # shorter than the curve list (or equal when one curve)
                    elif s == 3:
                        names = [nm] * width  # duplicates
                    core.witness("set_data-wider-array", width > n)
                    core.witness("set_data-two-columns-wider", width >= n + 2 and n > 0)
                    core.witness("set_data-truncate", truncate)
                    las.set_data(data, names=None if names is None else list(names), truncate=truncate)
                    if truncate:
                        data = data[:, :n]
                        width = min(width, n)
                    if data.size > 0:
                        while len(model) < width:
                            model.append(["", "", "", "", None])
                        for i_, row in enumerate(model):
                            if names is not None:
                                row[0] = names[i_] if i_ < len(names) else ""
                            row[4] = data[:, i_]
            except Exception as e:
                core.oblige("operation-%s-does-not-raise@%d" % (op, t), False, info=repr(e)[:200])
                return {"observed": {"raised": type(e).__name__, "at": t}}
            # ---- compare with the model
            cur = list(list.__iter__(las.curves))
            obl = [("same-number-of-curves@%d" % t, len(cur) == len(model))]
            if len(cur) == len(model):
                for i_, (cv, row) in enumerate(zip(cur, model)):
                    obl.append(("curve-%d-name@%d" % (i_, t), SymStr.lift(cv.original_mnemonic).eq_expr(row[0])))
                    obl.append(("curve-%d-metadata@%d" % (i_, t), cv.unit == row[1] and cv.value == row[2] and cv.descr == row[3]))
                    obl.append(("curve-%d-array@%d" % (i_, t), bool(np.array_equal(np.asarray(cv.data), row[4]))))
                ks, vs, its = las.keys(), las.values(), las.items()
                obl.append(("views-lengths@%d" % t, len(ks) == len(vs) == len(its) == len(cur)))
                for i_, cv in enumerate(cur):
                    obl.append(("keys-view@%d" % t, SymStr.lift(ks[i_]).eq_expr(cv.mnemonic)))
                    obl.append(("values-view@%d" % t, vs[i_] is cv.data))
                    obl.append(("items-view@%d" % t, its[i_][1] is cv.data and SymStr.lift(its[i_][0]).eq_expr(cv.mnemonic)))
                    obl.append(("int-indexing@%d" % t, las[i_] is cv.data))
                    obl.append(("mnemonic-indexing@%d" % t, las[ks[i_]] is cv.data))
                if op == "set_data" and data.size > 0:
                    # set_data names every curve anew: the session names are those of a freshly named list
                    want_keys = fresh_session_names([_conc_name(row[0]) for row in model], start == "two-transforms")
                    core.witness("set_data-after-un-duplication", z.And(z.Or([_has_colon(k) for k in keys_before]), not any(":" in k for k in want_keys)))
                    obl.append(("session-names-after-set_data@%d" % t, z.And([SymStr.lift(ks[i_]).eq_expr(want_keys[i_]) for i_ in range(len(cur))])))
                if cur:
                    obl.append(("index-view@%d" % t, las.index is cur[0].data))
                    d2 = las.data
                    obl.append(("data-view@%d" % t, d2.shape == (2, len(cur)) and all(bool(np.array_equal(d2[:, i_], np.asarray(cv.data))) for i_, cv in enumerate(cur))))
            oc = list(list.__iter__(other.curves))
            obl.append(("other-lasfile-untouched@%d" % t, len(oc) == 1 and oc[0].original_mnemonic == "O" and bool(np.array_equal(oc[0].data, arr(9))) and len(list(list.__iter__(other.well))) == 16))
            core.oblige_all(obl)
            core.witness("duplicate-names-in-history", z.Or([SymStr.lift(model[a][0]).eq_expr(model[b][0]) for a in range(len(model)) for b in range(a + 1, len(model))]) if len(model) > 1 else False)
        return {"observed": {"keys": las.keys(), "originals": [cv.original_mnemonic for cv in list.__iter__(las.curves)]}}

    return run


def fresh_session_names(originals, ignore_case=False):
    """session names of a freshly named list: blank -> UNKNOWN, names occurring more than once (ignoring case in a
    case-normalised section) get :1..:n in order"""
    useful = [n if n.strip() else "UNKNOWN" for n in originals]
    norm = (lambda x: x.upper()) if ignore_case else (lambda x: x)
    out, seen = [], {}
    for n in useful:
        g = norm(n)
        if sum(1 for w in useful if norm(w) == g) > 1:
            seen[g] = seen.get(g, 0) + 1
            out.append("%s:%d" % (n, seen[g]))
        else:
            out.append(n)
    return out


def _has_colon(k):
    if isinstance(k, str):
        return ":" in k
    return z.Or([z.And(k.inlen(i), z.eq_c(k.chars[i], 58)) for i in range(k.cap)])


def _conc_name(x):
    """concrete value of a model name (forks over the name alphabet of this check)"""
    if isinstance(x, str):
        return x
    for cand in ("", "A", "B", "a"):
        if x == cand:
            return cand
    raise core.OutOfBound("name outside '', 'A', 'B'")


def _first_index(keys, key):
    """first index whose session name equals key (forks on symbolic comparisons); None if absent"""
    for i, k in enumerate(keys):
        if k == key:
            return i
    return None


# ------------------------------------------------------------------------------ concrete oracle
def replay(i):
    import lasio

    start, ops, names, pos, sel, flags = i["start"], i["ops"], i["names"], i["pos"], i["sel"], i["flags"]
    las = lasio.LASFile()
    other = lasio.LASFile()
    other.append_curve("O", arr(9), unit="ou")
    model = []
    if start in ("two", "two-transforms"):
        las.append_curve("DEPT", arr(7, 0), unit="M", descr="depth")
        las.append_curve("A", arr(7, 1), unit="ua", descr="first", value="va")
        model = [["DEPT", "M", "", "depth", arr(7, 0)], ["A", "ua", "va", "first", arr(7, 1)]]
    if start == "two-transforms":
        las.curves.mnemonic_transforms = True
    problems = []
    for t, op in enumerate(ops):
        if t >= len(pos):
            break
        n = len(model)
        nm, p, s, flg = names[t], pos[t], sel[t], flags[t]
        kb = las.keys()
        first = lambda key: kb.index(key) if key in kb else None
        u, v, d = "u%d" % t, "v%d" % t, "d%d" % t
        try:
            if op == "append":
                las.append_curve(nm, arr(t), unit=u, descr=d, value=v)
                model.append([nm, u, v, d, arr(t)])
            elif op == "insert":
                las.insert_curve(p, nm, arr(t), unit=u, descr=d, value=v)
                model.insert(p, [nm, u, v, d, arr(t)])
            elif op == "delete_ix":
                las.delete_curve(ix=p)
                del model[p]
            elif op == "delete_mn":
                key = kb[p]
                las.delete_curve(mnemonic=key)
                del model[first(key)]
            elif op == "update_ix":
                las.update_curve(ix=p, data=arr(t), unit=u, descr=d)
                model[p][1], model[p][3], model[p][4] = u, d, arr(t)
            elif op == "update_mn":
                key = kb[p]
                las.update_curve(mnemonic=key, data=arr(t), value=v)
                model[first(key)][2], model[first(key)][4] = v, arr(t)
            elif op == "replace_item":
                las.replace_curve_item(p, lasio.CurveItem(nm, u, v, d, arr(t)))
                model[p] = [nm, u, v, d, arr(t)]
            elif op == "setitem_arr":
                if p < n:
                    key = kb[p]
                    las[key] = arr(t)
                    model[first(key)][4] = arr(t)
                else:
                    pr = first(nm)
                    las[nm] = arr(t)
                    if pr is None:
                        model.append([nm, "", "", "", arr(t)])
                    else:
                        model[pr][4] = arr(t)
            elif op == "setitem_item":
                item = lasio.CurveItem(nm, u, v, d, arr(t))
                pr = first(item.mnemonic)
                las[item.mnemonic] = item
                if pr is None:
                    model.append([nm, u, v, d, arr(t)])
                else:
                    model[pr] = [nm, u, v, d, arr(t)]
            elif op == "set_data":
                wider, truncate = bool(flg), s == 1
                ext = (i.get("extra") or {}).get(str(t), 1)
                width = n + (max(1, ext) if wider else 0) or 1
                data = np.array([[1000.0 * t + 10 * jj + r for jj in range(width)] for r in range(2)])
                nlist = None
                if s == 2:
                    nlist = [nm]
                elif s == 3:
                    nlist = [nm] * width
                las.set_data(data, names=None if nlist is None else list(nlist), truncate=truncate)
                if truncate:
                    data = data[:, :n]
                    width = min(width, n)
                if data.size > 0:
                    while len(model) < width:
                        model.append(["", "", "", "", None])
                    for i_, row in enumerate(model):
                        if nlist is not None:
                            row[0] = nlist[i_] if i_ < len(nlist) else ""
                        row[4] = data[:, i_]
        except Exception as e:
            problems.append("step %d %s(name=%r,pos=%r,sel=%r,flag=%r) raised %r" % (t, op, nm, p, s, flg, e))
            return {"ok": False, "detail": "; ".join(problems), "observed": {"raised": type(e).__name__, "at": t}}
        cur = list(las.curves)
        got = [(cv.original_mnemonic, cv.unit, cv.value, cv.descr, list(np.asarray(cv.data))) for cv in cur]
        want = [(r[0], r[1], r[2], r[3], list(r[4])) for r in model]
        if got != want:
            problems.append("step %d %s(name=%r,pos=%r,sel=%r,flag=%r): curves %r, list model %r" % (t, op, nm, p, s, flg, got, want))
            break
        if op == "set_data" and data.size > 0 and las.keys() != fresh_session_names([r[0] for r in model], start == "two-transforms"):
            problems.append("step %d set_data(names=%r): session names %r, a freshly named list %r has %r" % (t, nlist, las.keys(), [r[0] for r in model], fresh_session_names([r[0] for r in model], start == "two-transforms")))
        if any(las[k_] is not cv.data for k_, cv in zip(las.keys(), cur)) if len(set(las.keys())) == len(cur) else False:
            problems.append("step %d: mnemonic indexing disagrees with keys() %r" % (t, las.keys()))
        if las.keys() != [cv.mnemonic for cv in cur] or any(a is not cv.data for a, cv in zip(las.values(), cur)) or any(las[k_] is not cv.data for k_, cv in enumerate(cur)):
            problems.append("step %d: views disagree" % t)
        if cur and not (las.index is cur[0].data and las.data.shape == (2, len(cur)) and all(np.array_equal(las.data[:, k_], cv.data) for k_, cv in enumerate(cur))):
            problems.append("step %d: index/data views disagree" % t)
        if [cv.original_mnemonic for cv in other.curves] != ["O"]:
            problems.append("other LASFile affected")
    return {"ok": not problems, "detail": "; ".join(problems) or "ok", "observed": {"keys": las.keys(), "originals": [cv.original_mnemonic for cv in las.curves]}}
