"""C01 - numeric curve data survives write->read within the printed precision.

Kernel: the real writer.write data part (format_data_section_line, column formats, spacers,
mnemonics header, TextWrapper-based wrapping - textwrap is executed as it is, over a symbolic
width) composed with the whole real LASFile.read (column sniffing, column-count choice, both
engines, NULL handling).  data_width is a symbolic integer; version, wrap, fmt, column_fmt,
len_numeric_field, spacers and header style are symbolic choices; samples are concrete floats of
several magnitudes with NaN at non-index positions.
"""
import numpy as np
from symlas import core, z, symnp
from symlas.driver import apply_exclusions
from symlas.stubs import SymFile, OutFile
from symlas.values import SymStr, SymInt, fresh_int, fresh_bool
from checks import datafile as DF

PROPERTY = "C01"
FUNCTIONS = [
    "lasio/writer.py::write",
    "lasio/las.py::LASFile.read",
    "lasio/reader.py::inspect_data_section",
    "lasio/reader.py::read_data_section_iterative_normal_engine",
    "lasio/reader.py::read_data_section_iterative_numpy_engine",
]
VALUES = [1.0, -99999.75, -3.25, 1234.5678, 0.000123, -99999.5, 7.0, 0.5, -0.125, 42.0, 3.14159, 100000.0, 8.75, -1.5]
FMTS = [("%.5f", 5), ("%.2f", 2), ("%10.3f", 3), ("%.1f", 1)]
LNF = [None, -1, 12, 16]
SPACERS = [" ", "  ", "\t"]
BOUNDS = {
    "quick": {"shapes": [[1, 2], [2, 2], [4, 2], [4, 1]], "wide_shapes": [[28, 3]], "width_range": [20, 60], "task_budget_s": 900},
    "thorough": {"shapes": [[1, 1], [1, 3], [2, 2], [3, 2], [4, 2], [4, 1], [6, 2]], "wide_shapes": [[28, 3], [35, 2], [24, 2]], "width_range": [20, 75], "task_budget_s": 3000, "max_paths": 200000},
}
ASSUMPTIONS = [
    "samples are concrete floats (the listed magnitudes) with NaN at a symbolic non-index position; '%' formatting and float parsing are libc/numpy (executed, not encoded): the half-unit bound is checked on the values that come back",
    "data_width is a symbolic integer over the stated range, which starts above the widest field + spacer: narrower widths make textwrap split a number over two lines (not a supported combination) (textwrap runs unmodified over the symbolic width); the other options range over the listed finite sets; len_numeric_field=-1 comes with a non-empty spacer",
    "curve counts up to 4 (quick) / 6 (thorough) over the full option product and every width; plus wide files (28 curves; thorough also 24 and 35) with the version/fmt/len_numeric_field/spacer options and three widths",
]
WITNESS_TARGETS = ["wrapped-output", "every-wrapped-line-carries-the-same-count", "nan-written-as-null", "numpy-engine-read", "one-value-per-line"]
EXCLUSIONS = {}


NLOW = 2 * len(FMTS) * len(LNF) * len(SPACERS)  # version x fmt x len_numeric_field x spacer: the symbolic part of the selector
NHIGH = 3 * 2 * 2  # header style x column_fmt x lhs_spacer: one task each (the cases are independent and run in parallel)


def tasks(tier):
    b = BOUNDS[tier]
    out = [{"name": "c%d-r%d/%s/h%d" % (c, r, e, hs), "params": {"c": c, "r": r, "engine": e, "wr": b["width_range"], "hsel": hs}, "weight": c * r}
           for c, r in b["shapes"] for e in ("numpy", "normal") for hs in range(NHIGH)]
    # many curves: an unwrapped row is longer than 256 characters (the LAS 1.2 line limit) and a wrapped row spans several lines
    for c, r in b.get("wide_shapes", []):
        out += [{"name": "c%d-r%d/%s/h0" % (c, r, e), "params": {"c": c, "r": r, "engine": e, "wr": b["width_range"], "hsel": 0, "widths": [b["width_range"][0], 79, b["width_range"][1]]}, "weight": c * r} for e in ("numpy", "normal")]
    return out


def build(ns, c, r, nanpos):
    las = ns.las.LASFile()
    names = ["DEPT", "GR", "RHOB", "NPHI", "DT", "CALI", "SP"] + ["C%d" % q for q in range(7, 40)]
    k = 0
    for j in range(c):
        col = []
        for i in range(r):
            if j == 0:
                col.append(100.0 + 0.5 * i)
            else:
                col.append(VALUES[k % len(VALUES)])
                k += 1
        arr = np.array(col)
        las.append_curve(names[j], arr, unit="U%d" % j)
    if c > 1 and nanpos is not None:
        i, j = divmod(nanpos, c - 1)
        list.__getitem__(las.curves, 1 + j).data[i % r] = np.nan
    las.well["NULL"].value = -99999.25  # a sample (-99999.75) is near it, but not equal at any of the formats
    return las


def options(sel):
    """decode the option selector (mixed radix) into writer keyword arguments"""
    o = {}
    sel, v = divmod(sel, 2)
    o["version"] = [2.0, 1.2][v]
    sel, f = divmod(sel, len(FMTS))
    o["fmt"] = FMTS[f][0]
    sel, l = divmod(sel, len(LNF))
    if LNF[l] is not None:
        o["len_numeric_field"] = LNF[l]
    sel, s = divmod(sel, len(SPACERS))
    o["spacer"] = SPACERS[s]
    sel, h = divmod(sel, 3)
    if h == 1:
        o["mnemonics_header"] = True
    elif h == 2:
        o["data_section_header"] = "~A  DEPTH and curves"
    sel, cf = divmod(sel, 2)
    if cf:
        o["column_fmt"] = {0: "%.3f"}
    sel, ls = divmod(sel, 2)
    if ls:
        o["lhs_spacer"] = ""
    return o, FMTS[f][1], (3 if cf else FMTS[f][1])


NOPT = 2 * len(FMTS) * len(LNF) * len(SPACERS) * 3 * 2 * 2


def harness(ns, params):
    c, r, engine, wr = params["c"], params["r"], params["engine"], params["wr"]

    def run():
        core.OPTS["concretize"] = True
        sel = fresh_int("options_low", 0, NLOW - 1)
        hsel = params["hsel"]
        wrap = fresh_bool("wrap")
        width = fresh_int("data_width", wr[0], wr[1])
        nanp = fresh_int("nan_position", 0, max(0, (c - 1) * r - 1))
        inputs = {"c": c, "r": r, "engine": engine, "options_low": sel, "options_high": hsel, "wrap": wrap, "data_width": width, "nan_position": nanp}
        cx = core.ctx()
        cx.inputs = inputs
        apply_exclusions(inputs)
        # the option selector: its low part (96 values) is a symbolic integer fixed per path by binary search, its high
        # part is the task's case (every combination is explored)
        opts, prec, prec0 = options(sel.__index__() + NLOW * hsel)
        wrap_c = bool(wrap)
        if not wrap_c:
            core.assume(z.eq_i(width.e, wr[0]))
        if params.get("widths"):
            core.assume(z.Or(z.eq_i(nanp.e, 0), z.eq_i(nanp.e, (c - 1) * r - 1)))  # wide files: NaN in the first or in the last cell
        if wrap_c and params.get("widths"):
            core.assume(z.Or([z.eq_i(width.e, w_) for w_ in params["widths"]]))  # wide files: three widths (the line arithmetic is covered by the narrow shapes)
        las = build(ns, c, r, nanp.__index__() if c > 1 else None)
        before = [np.array(cv.data, copy=True) for cv in list.__iter__(las.curves)]
        core.witness("wrapped-output", wrap_c)
        core.witness("nan-written-as-null", c > 1)
        core.witness("numpy-engine-read", engine == "numpy" and not wrap_c)
        out = OutFile()
        try:
            ns.writer.write(las, out, wrap=wrap_c, data_width=width if wrap_c else 79, **opts)
        except Exception as e:
            core.oblige("write-does-not-raise", False, info=repr(e)[:200])
            return {"observed": {"raised": "write:" + type(e).__name__}}
        lines = out.lines()
        k = [i for i, l in enumerate(lines) if isinstance(l, str) and l.startswith("~A")][0]
        dl = lines[k + 1:]
        counts = [len(l.split()) for l in dl]
        if wrap_c:
            core.witness("every-wrapped-line-carries-the-same-count", len(set(counts)) == 1 and counts[0] < c)
            core.witness("one-value-per-line", counts and max(counts) == 1 and c > 1)
        las2 = ns.las.LASFile()
        try:
            las2.read(SymFile(lines), engine=engine)
        except Exception as e:
            core.oblige("written-file-is-readable", False, info=repr(e)[:200])
            return {"observed": {"raised": "read:" + type(e).__name__, "lines": dl[:4]}}
        cv2 = list(list.__iter__(las2.curves))
        obl = [("same-number-of-curves", len(cv2) == c)]
        if len(cv2) == c:
            obl.append(("same-mnemonics-in-order", [x.original_mnemonic for x in cv2] == [x.original_mnemonic for x in list.__iter__(las.curves)]))
            for j, (a, cvb) in enumerate(zip(before, cv2)):
                b = np.asarray(cvb.data, dtype=float) if len(cvb.data) == r else None
                obl.append(("curve-%d-same-number-of-rows" % j, b is not None))
                if b is None:
                    continue
                p = prec0 if j == 0 else prec
                ok = True
                for x, y in zip(a.tolist(), b.tolist()):
                    if x != x:
                        ok = ok and (y != y) and j != 0
                    else:
                        ok = ok and (y == y) and abs(y - x) <= 0.5 * 10 ** (-p) * (1 + 1e-9)
                obl.append(("curve-%d-samples-within-half-a-unit-of-the-last-digit" % j, ok))
        core.oblige_all(obl)
        return {"observed": {"raised": None, "ncurves": len(cv2)}}

    return run


# ------------------------------------------------------------------------------ concrete oracle
def replay(i):
    import io
    import lasio

    class NS(object):
        pass

    ns = NS()
    ns.las = lasio.las
    c, r, engine = i["c"], i["r"], i["engine"]
    opts, prec, prec0 = options(i["options"] if "options" in i else i["options_low"] + NLOW * i["options_high"])
    las = build(ns, c, r, i["nan_position"] if c > 1 else None)
    before = [np.array(cv.data, copy=True) for cv in las.curves]
    o = io.StringIO()
    try:
        las.write(o, wrap=i["wrap"], data_width=i["data_width"] if i["wrap"] else 79, **opts)
    except Exception as e:
        return {"ok": False, "detail": "write raised %r (options %r)" % (e, opts), "observed": {"raised": "write:" + type(e).__name__}}
    text = o.getvalue()
    try:
        las2 = lasio.read(text, engine=engine)
    except Exception as e:
        return {"ok": False, "detail": "read (engine=%s) of the written text raised %r; options %r wrap=%s data_width=%s:\n%s" % (engine, e, opts, i["wrap"], i["data_width"], text[text.index("~A"):][:600]), "observed": {"raised": "read:" + type(e).__name__, "lines": text[text.index("~A"):].splitlines()[1:5]}}
    problems = []
    if len(las2.curves) != c:
        problems.append("%d curves written, %d read" % (c, len(las2.curves)))
    else:
        if [x.original_mnemonic for x in las2.curves] != [x.original_mnemonic for x in las.curves]:
            problems.append("mnemonics %r" % ([x.original_mnemonic for x in las2.curves],))
        for j, (a, cvb) in enumerate(zip(before, las2.curves)):
            if len(cvb.data) != r:
                problems.append("curve %d has %d rows, %d written" % (j, len(cvb.data), r))
                continue
            p = prec0 if j == 0 else prec
            for x, y in zip(a.tolist(), np.asarray(cvb.data, dtype=float).tolist()):
                if x != x:
                    if not (y != y and j != 0):
                        problems.append("NaN in curve %d read as %r" % (j, y))
                elif not (y == y and abs(y - x) <= 0.5 * 10 ** (-p) * (1 + 1e-9)):
                    problems.append("curve %d sample %r read as %r (format precision %d)" % (j, x, y, p))
    return {"ok": not problems, "detail": "ok" if not problems else "; ".join(problems) + "; options %r wrap=%s data_width=%s engine=%s:\n%s" % (opts, i["wrap"], i["data_width"], engine, text[text.index("~A"):][:600]),
            "observed": {"raised": None, "ncurves": len(las2.curves)}}


def validate():
    return symnp.validate_genfromtxt()
