"""Constraint helpers shared by the check harnesses."""
from symlas import z, core
from symlas.values import SymStr, isws, isdigit


def allc(x, pred):
    """every character of x (within its length) satisfies pred"""
    x = SymStr.lift(x)
    return z.And([z.Or(z.ge(i, x.n), pred(x.chars[i])) for i in range(x.cap)])


def anyc(x, pred):
    x = SymStr.lift(x)
    return z.Or([z.And(z.lt(i, x.n), pred(x.chars[i])) for i in range(x.cap)])


def printable(c):
    """printable Latin-1 without controls (NBSP counts as printable)"""
    return z.Or(z.in_range_c(c, 32, 126), z.in_range_c(c, 160, 254))


def printable_ascii(c):
    return z.in_range_c(c, 32, 126)


def blank_or_tab(c):
    return z.Or(z.eq_c(c, 32), z.eq_c(c, 9))


def is_stripped(x):
    """x == x.strip()"""
    x = SymStr.lift(x)
    cs = [z.Or(z.eq_i(x.n, 0), z.Not(isws(x.chars[0])))] if x.cap else []
    for i in range(x.cap):
        cs.append(z.Implies(z.eq_i(x.n, i + 1), z.Not(isws(x.chars[i]))))
    return z.And(cs)


def not_char(*chs):
    codes = tuple(ord(c) for c in chs)
    return lambda c: z.Not(z.in_set_c(c, codes))


def no_substr(x, sub):
    x = SymStr.lift(x)
    return z.Not(z.Or(x._find_vec(sub)))


def alpha(c):
    return z.Or(z.in_range_c(c, 65, 90), z.in_range_c(c, 97, 122))


def first_char(x):
    return x.chars[0]


def last_char(x):
    x = SymStr.lift(x)
    return x.at(z.sub(x.n, 1))


def eq(a, b):
    return SymStr.lift(a).eq_expr(b) if isinstance(a, (str, SymStr)) and isinstance(b, (str, SymStr)) else (a == b)


class Layout(object):
    """A symbolic line described by consecutive segments with symbolic boundaries.

    The line's characters are the base solver variables; segment k spans [s[k], s[k+1]).
    segs: list of dicts  {name, lo, hi, cls}  (cls: predicate on a char)   or
                         {name, lit: 'text', optional: bool}
    This is existential quantification over "all lines of this layout": every assignment
    of boundaries and characters satisfying the class constraints is one such line.
    """

    def __init__(self, name, segs):
        import z3
        from symlas.z import IW

        self.segs = segs
        self.idx = {sg["name"]: k for k, sg in enumerate(segs)}
        cap = 0
        for sg in segs:
            if "lit" in sg:
                sg["lo"] = 0 if sg.get("optional") else len(sg["lit"])
                sg["hi"] = len(sg["lit"])
            cap += sg["hi"]
        self.cap = cap
        L = SymStr.fresh(name, cap)
        self.line = L
        s = [0]
        smax = [0]
        for k, sg in enumerate(segs):
            if sg["lo"] == sg["hi"]:
                nxt = z.add(s[-1], sg["hi"])
            else:
                ln = z3.BitVec("%s.len.%s" % (name, sg["name"]), IW)
                if "lit" in sg:
                    core.assume(z.Or(ln == 0, ln == sg["hi"]))
                else:
                    core.assume(z.And(ln >= sg["lo"], ln <= sg["hi"]))
                sg["len"] = ln
                nxt = z.add(s[-1], ln)
            s.append(nxt)
            smax.append(smax[-1] + sg["hi"])
        self.s = s
        self.smax = smax
        core.assume(z.eq_i(L.n, s[-1]))
        for k, sg in enumerate(segs):
            a, b = s[k], s[k + 1]
            lo_pos = sum(x["lo"] for x in segs[:k])
            hi_pos = smax[k + 1]
            if "lit" in sg:
                for j, ch in enumerate(sg["lit"]):
                    present = z.gt(b, a) if sg.get("optional") else True
                    for i in range(lo_pos + j, min(cap, smax[k] + j + 1)):
                        core.assume(z.Implies(z.And(present, z.eq_i(z.add(a, j), i)), z.eq_c(L.chars[i], ord(ch))))
            else:
                cls = sg["cls"]
                for i in range(lo_pos, min(cap, hi_pos)):
                    core.assume(z.Implies(z.And(z.le(a, i), z.lt(i, b)), cls(L.chars[i])))

    def seg(self, name):
        k = self.idx[name]
        return self.span(name, name)

    def span(self, first, last):
        a = self.s[self.idx[first]]
        b = self.s[self.idx[last] + 1]
        hi = sum(sg["hi"] for sg in self.segs[self.idx[first] : self.idx[last] + 1])
        sub = SymStr.lift(self.line.sub(a, b))
        if sub.cap > hi:
            sub = SymStr(sub.chars[:hi], sub.n, hi)
        from symlas.values import mkstr

        return mkstr(sub)

    def seglen(self, name):
        k = self.idx[name]
        return z.sub(self.s[k + 1], self.s[k])

    def nonempty(self, name):
        return z.gt(self.seglen(name), 0)

    # ---- positional forms of common string-level constraints (no shifter needed)
    def _in(self, name, i):
        k = self.idx[name]
        return z.And(z.le(self.s[k], i), z.lt(i, self.s[k + 1]))

    def _range(self, name):
        k = self.idx[name]
        return range(sum(x["lo"] for x in self.segs[:k]), min(self.cap, self.smax[k + 1]))

    def any_char(self, name, pred):
        return z.Or([z.And(self._in(name, i), pred(self.line.chars[i])) for i in self._range(name)])

    def all_chars(self, name, pred):
        return z.And([z.Implies(self._in(name, i), pred(self.line.chars[i])) for i in self._range(name)])

    def first_char_is(self, name, pred):
        """segment empty or its first character satisfies pred"""
        k = self.idx[name]
        return z.And([z.Implies(z.And(z.eq_i(self.s[k], i), self.nonempty(name)), pred(self.line.chars[i])) for i in self._range(name)])

    def last_char_is(self, name, pred):
        k = self.idx[name]
        return z.And([z.Implies(z.And(z.eq_i(z.sub(self.s[k + 1], 1), i), self.nonempty(name)), pred(self.line.chars[i])) for i in self._range(name)])

    def stripped(self, name):
        nw = lambda c: z.Not(isws(c))
        return z.And(self.first_char_is(name, nw), self.last_char_is(name, nw))

    def no_pair(self, name, c1, c2):
        """the segment does not contain the two-character substring c1 c2"""
        r = list(self._range(name))
        cs = []
        for i in r:
            if i + 1 < self.cap:
                cs.append(z.Not(z.And(self._in(name, i), self._in(name, i + 1), z.eq_c(self.line.chars[i], ord(c1)), z.eq_c(self.line.chars[i + 1], ord(c2)))))
        return z.And(cs)


def cond_str(cond, a, b):
    """string a if cond else b, without forking"""
    from symlas.values import mkstr

    cc = z._cb(cond)
    if cc is not None:
        return a if cc else b
    a = SymStr.lift(a)
    b = SymStr.lift(b)
    cap = max(a.cap, b.cap)
    ca = a.chars + [0] * (cap - a.cap)
    cb = b.chars + [0] * (cap - b.cap)
    return mkstr(SymStr([z.ite_c(cond, x, y) for x, y in zip(ca, cb)], z.ite_i(cond, a.n, b.n), max(a.maxlen, b.maxlen)))
