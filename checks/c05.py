"""C05 - every line is attributed to the section whose title precedes it.

Kernel: the whole real LASFile.read (find_sections_in_file, determine_section_type, the
section routing loop with its provisional VERS/WRAP/NULL/DLM, parse_header_items_section,
the ~Other loop, data reading with both engines) over file skeletons whose section titles
(letter case and trailing text) and one item mnemonic/value (so the steering names
VERS/WRAP/NULL/DLM are inside) are solver variables.  One task per section order.
"""
import itertools
import numpy as np
from symlas import core, z
from symlas.driver import apply_exclusions
from symlas.stubs import SymFile
from symlas.values import SymStr, SymInt, B, concat, fresh_int
from checks.common import allc, printable_ascii, cond_str

PROPERTY = "C05"
FUNCTIONS = [
    "lasio/reader.py::find_sections_in_file",
    "lasio/reader.py::determine_section_type",
    "lasio/reader.py::parse_header_items_section",
    "lasio/reader.py::SectionParser.__init__",
    "lasio/reader.py::inspect_data_section",
    "lasio/reader.py::read_data_section_iterative_normal_engine",
    "lasio/las.py::LASFile.read",
]
CONTENT = {
    "W": [("STRT.M 1.0 : s", ("STRT", "M", 1.0, "s")), ("STOP.M 2.0 : e", ("STOP", "M", 2.0, "e")), ("STEP.M 1.0 : i", ("STEP", "M", 1.0, "i")), ("NULL. -9 : n", ("NULL", "", -9, "n"))],
    "C": [("DEPT.M : d", ("DEPT", "M", "", "d")), ("GR.API : g", ("GR", "API", "", "g"))],
    "P": [("BHT.C 35 : t", ("BHT", "C", 35, "t"))],
    "X": [("KEY.u val : k", ("KEY", "u", "val", "k"))],
    "O": ["free text 1", "# a remark inside the free text", "second line"],
    "A": ["1 5", "2 -9"],
}
BOUNDS = {
    "quick": {"orders": 6, "title_extra_cap": 2, "steer": True, "engines": ["normal", "numpy"], "task_budget_s": 900},
    "thorough": {"orders": 60, "title_extra_cap": 3, "steer": True, "engines": ["normal", "numpy"], "task_budget_s": 3000},
}
ASSUMPTIONS = [
    "skeleton family: ~V first, then an order of {~W, ~C, ~P, ~O, one custom section}, ~A at any later place; section bodies are the listed concrete lines plus one symbolic item; one section title is symbolic per run (the others use canonical spellings)",
    "titles: at most one leading blank or tab + '~' + section letter in either case + up to 2 (quick) / 3 (thorough) further printable characters (no '_', which selects LAS 3.0 routing, no '~')",
    "the symbolic item (in ~C, ~P or the custom section) has a 3-4 character mnemonic and a value chosen among {'YES','1.2','COMMA','5'}: the steering names are inside the domain",
    "custom section titles begin with a letter other than V/W/C/P/O/A in either case",
]
WITNESS_TARGETS = ["indented-title", "lower-case-title", "title-with-trailing-text", "steering-name-in-foreign-section", "data-section-not-last", "well-section-without-NULL", "section-with-title-line-only", "header-only-read-with-data-section-not-last"]
EXCLUSIONS = {}
LETTERS = {"W": "Ww", "C": "Cc", "P": "Pp", "O": "Oo", "A": "Aa", "X": None}
STEER_VALUES = ["YES", "1.2", "COMMA", "5"]


def all_orders():
    outs = []
    for perm in itertools.permutations(["W", "C", "P", "O", "X"]):
        for apos in range(1, 6):  # ~A after at least ~W or ~C ... anywhere; 5 = last
            order = list(perm)
            order.insert(apos, "A")
            outs.append(order)
    return outs


def tasks(tier):
    b = BOUNDS[tier]
    orders = all_orders()
    # deterministic spread: canonical order first, then evenly spaced others
    canon = ["W", "C", "P", "O", "X", "A"]
    pick = [canon] + [orders[(i * len(orders)) // b["orders"]] for i in range(1, b["orders"])]
    out = []
    n = 0
    for order in pick:
        for symk in order:
            for eng in b["engines"]:
                out.append({"name": "%s/title-%s/%s" % ("".join(order), symk, eng), "params": {"order": order, "engine": eng, "xcap": b["title_extra_cap"], "steer_in": ["C", "P", "X"][n % 3], "symtitle": symk}})
                n += 1
    return out


CANON_TITLES = {"W": "~Well", "C": "~Curve", "P": "~Parameter", "O": "~Other", "X": "~Xtra", "A": "~ASCII"}


def harness(ns, params):
    order, engine, xcap, steer_in = params["order"], params["engine"], params["xcap"], params["steer_in"]

    def run():
        A = core.assume
        core.OPTS["concretize"] = True
        titles = {}
        okc = lambda c: z.And(printable_ascii(c), z.Not(z.in_set_c(c, (95, 126))))
        for k in order:
            if k != params["symtitle"]:
                titles[k] = CANON_TITLES[k]
                continue
            extra = SymStr.fresh("tx_" + k, xcap)
            A(allc(extra, okc))
            first = SymStr.fresh("tl_" + k, 1, fixed_len=1)
            if k == "X":
                A(z.And(z.Or(z.in_range_c(first.chars[0], 65, 90), z.in_range_c(first.chars[0], 97, 122)), z.Not(z.in_set_c(first.chars[0], tuple(ord(c) for c in "VWCPOAvwcpoa")))))
            else:
                A(z.in_set_c(first.chars[0], tuple(ord(c) for c in LETTERS[k])))
            ind = SymStr.fresh("ti_" + k, 1)  # the title line may be indented by a blank or a tab
            A(allc(ind, lambda c: z.in_set_c(c, (32, 9))))
            titles[k] = SymStr.lift(concat([ind, "~", first, extra]))
            core.witness("indented-title", ind.truth())
            core.witness("lower-case-title", z.in_range_c(first.chars[0], 97, 122))
            core.witness("title-with-trailing-text", extra.truth())
        # the symbolic item
        smn = SymStr.fresh("smn", 4, minlen=3)
        A(allc(smn, lambda c: z.in_range_c(c, 65, 90)))
        A(z.Not(z.Or(smn.eq_expr("API"), smn.eq_expr("UWI"))))  # their values stay text by design (property C08)
        sval = fresh_int("sval", 0, len(STEER_VALUES) - 1)
        from symlas.values import fresh_bool

        wnull = fresh_bool("well_has_null")
        emp = fresh_int("empty_section", 0, 3)  # none / ~W / ~P / the custom section consists of its title line only
        igd = fresh_bool("ignore_data")  # header-only read
        inputs = {"order": order, "engine": engine, "steer_in": steer_in, "titles": [titles[k] for k in order], "smn": smn, "sval": sval, "well_has_null": wnull, "empty_section": emp, "ignore_data": igd}
        c = core.ctx()
        c.inputs = inputs
        apply_exclusions(inputs)
        sv = STEER_VALUES[sval.__index__()]
        wn = bool(wnull)
        empty = [None, "W", "P", "X"][emp.__index__()]
        if empty == steer_in:
            raise core.Abort()  # the section receiving the symbolic item is not empty
        if empty == "W":
            A(z.Not(wnull.e))
            wn = False
        ignore_data = bool(igd)
        core.witness("section-with-title-line-only", empty is not None)
        core.witness("header-only-read-with-data-section-not-last", ignore_data and order[-1] != "A")
        lines = ["~Version", "VERS. 2.0 : v", "WRAP. NO : w"]
        for k in order:
            lines.append(titles[k])
            body = list(CONTENT[k]) if k in ("O", "A") else [ln for ln, _ in CONTENT[k]]
            if k == "W" and not wn:
                body = body[:-1]  # a ~Well section without a NULL item
            if k == empty:
                body = []
            if k == steer_in:
                body = body + [concat([smn, ". ", sv, " : x"])]
            lines += body
        core.witness("data-section-not-last", order[-1] != "A")
        core.witness("well-section-without-NULL", not wn)
        core.witness("steering-name-in-foreign-section", z.Or([smn.eq_expr(n) for n in ("VERS", "WRAP", "NULL", "DLM")]))
        las = ns.las.LASFile()
        try:
            las.read(SymFile(lines), engine=engine, mnemonic_case="preserve", ignore_data=ignore_data)
        except Exception as e:
            core.oblige("read-does-not-raise", False, info=repr(e)[:300])
            return {"observed": {"raised": type(e).__name__}}
        obl = []
        secs = las.sections
        # expected section keys: the five standard ones + the custom title (without '~')
        xkey = SymStr.lift(SymStr.lift(titles["X"]).strip())[1:] if isinstance(titles["X"], SymStr) else titles["X"].strip()[1:]  # the title line is stripped
        from symlas import loader

        nkeys = len(secs)
        obl.append(("section-count", nkeys == 6))
        foundx, xsec = loader._dict_lookup(secs, xkey)
        obl.append(("custom-section-kept-under-its-title", foundx))
        exp = {"Version": [("VERS", "", 2.0, "v"), ("WRAP", "", "NO", "w")], "Well": [t for _, t in CONTENT["W"]][: 4 if wn else 3], "Curves": [t for _, t in CONTENT["C"]], "Parameter": [t for _, t in CONTENT["P"]]}
        xexp = [t for _, t in CONTENT["X"]]
        if empty == "W":
            exp["Well"] = []
        elif empty == "P":
            exp["Parameter"] = []
        elif empty == "X":
            xexp = []
        steer_item = (smn, "", sv if steer_in == "C" else _steer_value(sv), "x")  # ~Curves values stay text
        {"C": exp["Curves"], "P": exp["Parameter"], "X": xexp}[steer_in].append(steer_item)
        for name, items in list(exp.items()) + ([("<custom>", xexp)] if foundx else []):
            got = xsec if name == "<custom>" else secs.get(name)
            if got is None or isinstance(got, (str, SymStr)):
                obl.append(("section-%s-is-an-item-section" % name, False))
                continue
            gl = list(list.__iter__(got))
            # ~Curves may get extra unnamed curves only if columns were mis-counted
            obl.append(("section-%s-item-count" % name, len(gl) == len(items)))
            if len(gl) == len(items):
                for it, (m, u, v, d) in zip(gl, items):
                    obl.append(("section-%s-item-%s" % (name, m if isinstance(m, str) else "steer"), z.And(_eq(it.original_mnemonic, m), _eq(it.unit, u), _eqv(it.value, v), _eq(it.descr, d))))
        other = secs.get("Other")
        obl.append(("other-text", _eq(other, "\n".join(CONTENT["O"])) if isinstance(other, (str, SymStr)) else False))
        # data rows: two columns, NULL (-9) of the non-index curve -> NaN
        if not ignore_data and "Curves" in secs and not isinstance(secs["Curves"], (str, SymStr)):
            cv = list(list.__iter__(secs["Curves"]))
            want = [[1.0, 2.0], [5.0, float("nan") if wn else -9.0]]
            ok = len(cv) >= 2
            if ok:
                for col, w in zip(cv[:2], want):
                    dat = np.asarray(col.data, dtype=float) if len(col.data) == 2 else None
                    ok = ok and dat is not None and all((a == b) or (a != a and b != b) for a, b in zip(dat.tolist(), w))
            obl.append(("data-rows", bool(ok)))
        core.oblige_all(obl)
        return {"observed": {"raised": None, "nsections": nkeys}}

    return run


def _steer_value(sv):
    return {"YES": "YES", "1.2": 1.2, "COMMA": "COMMA", "5": 5}[sv]


def _eq(a, b):
    if isinstance(a, (str, SymStr)) and isinstance(b, (str, SymStr)):
        return SymStr.lift(a).eq_expr(b)
    return False


def _eqv(a, b):
    from symlas.symnum import SymNum

    if isinstance(a, SymNum):
        # a number parsed from symbolic text: equal iff its source text is the expected literal
        if isinstance(b, (str, SymStr)):
            return False
        want = {1.2: "1.2", 5: "5"}.get(b)
        return SymStr.lift(a.text).eq_expr(want) if want is not None and (a.kind == "int") == isinstance(b, int) else False
    if isinstance(a, (str, SymStr)) or isinstance(b, (str, SymStr)):
        return _eq(a, b)
    return bool(a == b)


# ------------------------------------------------------------------------------ concrete oracle
def replay(i):
    import lasio

    order, engine, steer_in, titles, smn, sval = i["order"], i["engine"], i["steer_in"], i["titles"], i["smn"], i["sval"]
    sv = STEER_VALUES[sval]
    wn = i.get("well_has_null", True)
    empty = [None, "W", "P", "X"][i.get("empty_section", 0)]
    ignore_data = bool(i.get("ignore_data", False))
    if empty == "W":
        wn = False
    tmap = dict(zip(order, titles))
    lines = ["~Version", "VERS. 2.0 : v", "WRAP. NO : w"]
    for k in order:
        lines.append(tmap[k])
        body = list(CONTENT[k]) if k in ("O", "A") else [ln for ln, _ in CONTENT[k]]
        if k == "W" and not wn:
            body = body[:-1]
        if k == empty:
            body = []
        if k == steer_in:
            body = body + [smn + ". " + sv + " : x"]
        lines += body
    text = "\n".join(lines) + "\n"
    try:
        las = lasio.read(text, engine=engine, mnemonic_case="preserve", ignore_data=ignore_data)
    except Exception as e:
        return {"ok": False, "detail": "read raised %r for\n%s" % (e, text), "observed": {"raised": type(e).__name__}}
    problems = []
    exp = {"Version": [("VERS", "", 2.0, "v"), ("WRAP", "", "NO", "w")], "Well": [t for _, t in CONTENT["W"]][: 4 if wn else 3], "Curves": [t for _, t in CONTENT["C"]], "Parameter": [t for _, t in CONTENT["P"]],
           tmap["X"].strip()[1:]: [t for _, t in CONTENT["X"]]}
    if empty is not None:
        exp[{"W": "Well", "P": "Parameter", "X": tmap["X"].strip()[1:]}[empty]] = []
    {"C": exp["Curves"], "P": exp["Parameter"], "X": exp[tmap["X"].strip()[1:]]}[steer_in].append((smn, "", sv if steer_in == "C" else _steer_value(sv), "x"))
    if sorted(las.sections.keys()) != sorted(list(exp.keys()) + ["Other"]):
        problems.append("sections %r, expected %r" % (sorted(las.sections.keys()), sorted(list(exp.keys()) + ["Other"])))
    for name, items in exp.items():
        got = las.sections.get(name)
        if got is None or isinstance(got, str):
            problems.append("section %r missing or text" % name)
            continue
        g = [(it.original_mnemonic, it.unit, it.value, it.descr) for it in got]
        if g != items or any(type(a[2]) != type(b[2]) and not (isinstance(a[2], (int, float, np.integer, np.floating)) and isinstance(b[2], (int, float))) for a, b in zip(g, items)):
            problems.append("section %s holds %r, expected %r" % (name, g, items))
    if las.sections.get("Other") != "\n".join(CONTENT["O"]):
        problems.append("~Other text is %r" % (las.sections.get("Other"),))
    try:
        data = [np.asarray(c.data, dtype=float).tolist() for c in las.curves[:2]]
    except Exception as e:
        data = repr(e)
    want = [[1.0, 2.0], [5.0, float("nan") if wn else -9.0]]
    if not ignore_data and not (isinstance(data, list) and len(data) == 2 and all(len(a) == 2 and all((x == y) or (x != x and y != y) for x, y in zip(a, b)) for a, b in zip(data, want))):
        problems.append("data columns are %r, expected %r" % (data, want))
    return {"ok": not problems, "detail": ("; ".join(problems) + " for file:\n" + text) if problems else "ok", "observed": {"raised": None, "nsections": len(las.sections)}}
