"""C03 - header metadata survives write->read in every section and both versions.

Kernel: the real writer.write (update_start_stop_step, update_units_from_index_curve,
get_section_order_function, get_section_widths, standardize_value, get_formatter_function,
the ~Other and data parts) composed with the whole real LASFile.read
(parse_header_items_section, read_header_line, SectionParser).  A LASFile is built in the
engine with lasio's default items, a few concrete items and - in one of ~V, ~W, ~C, ~P - one
symbolic item next to a concrete companion that is narrower or wider than it.  The symbolic
item's field lengths are fixed per task (exhaustive shape case-split), all its characters are
solver variables; version, mnemonic_case and item order are symbolic choices.  The object the
reader returns (session names case-mapped, values typed by the reader) is then written and read
a second time and compared with the same expectation.
"""
import numpy as np
from symlas import core, z
from symlas.driver import apply_exclusions
from symlas.stubs import SymFile
from symlas.values import SymStr, fresh_int, fresh_bool
from checks import writerlib as W
from checks.common import allc, not_char

PROPERTY = "C03"
FUNCTIONS = [
    "lasio/writer.py::write",
    "lasio/writer.py::get_section_widths",
    "lasio/writer.py::get_formatter_function",
    "lasio/writer.py::get_section_order_function",
    "lasio/writer.py::standardize_value",
    "lasio/las.py::LASFile.update_start_stop_step",
    "lasio/las.py::LASFile.update_units_from_index_curve",
    "lasio/las.py::LASFile.read",
    "lasio/reader.py::parse_header_items_section",
    "lasio/reader.py::read_header_line",
    "lasio/reader.py::configure_metadata_patterns",
    "lasio/reader.py::SectionParser.metadata",
    "lasio/reader.py::SectionParser.params",
    "lasio/reader.py::SectionParser.curves",
]
BOUNDS = {
    "quick": {"field_len_cap": 1, "sections": ["V", "W", "C", "P"], "companions": ["narrow", "wide"], "numeric_kinds": True, "task_budget_s": 900},
    "thorough": {"field_len_cap": 3, "sections": ["V", "W", "C", "P"], "companions": ["narrow", "wide"], "numeric_kinds": True, "task_budget_s": 3000},
}
ASSUMPTIONS = [
    "one symbolic item per run; its four field lengths range over 0..cap (every length vector is a task: exhaustive shape case-split), every character is symbolic within the conformant classes of the statement (mnemonic without '.'/':' and not starting with '~'/'#'; unit without blanks, ':', '..', not all digits, not bracketed, no '.' at either end; value/description without ':', ~Curves values without '..'; fields equal to their own strip)",
    "symbolic text values start with a letter (numeric literals are exercised by concrete int/float values in the same sections)",
    "a blank mnemonic comes with fields that contain no period",
    "float formatting/parsing of the concrete numeric values is numpy/libc code (trusted)",
]
WITNESS_TARGETS = ["STRT-is-the-widest-well-entry", "symbolic-item-is-widest", "symbolic-item-is-narrowest", "version-1.2-well-order", "empty-value-with-unit-becomes-0", "blank-mnemonic", "case-mapped-mnemonic", "second-NULL-item-written-and-read-back", "second-cycle-compared"]
def _dup_steer_sym(i):
    """a second STRT/STOP/STEP, or a second NULL while the data hold a NaN (the writer then looks NULL up by name)"""
    if i["section"] != "W" or not isinstance(i["m"], (str, SymStr)):
        return False
    m = SymStr.lift(i["m"])
    nn = i.get("no_nan", False)
    return z.Or([m.eq_expr(n) for n in ("STRT", "STOP", "STEP")] + [z.And(m.eq_expr("NULL"), z.Not(nn.e if hasattr(nn, "e") else bool(nn)))])


def _dup_steer_conc(i):
    return i["section"] == "W" and (i["m"] in ("STRT", "STOP", "STEP") or (i["m"] == "NULL" and not i.get("no_nan", False)))


def _case_dup_sym(i):
    """read with mnemonic_case upper/lower, a differently-cased spelling of STRT/STOP/STEP (or of NULL, NaN in the
    data) becomes a duplicate of the standard item in the object the reader returns: the same unwritable state"""
    if i["section"] != "W" or not isinstance(i["m"], (str, SymStr)) or i["shape"][0] != 4:
        return False
    mu = SymStr.lift(SymStr.lift(i["m"]).upper())
    nn = i.get("no_nan", False)
    mc = i["mnemonic_case"]
    mapped = z.Not(z.eq_i(mc.e, 0)) if hasattr(mc, "e") else (mc != 0)
    return z.And(mapped, z.Or([mu.eq_expr(n) for n in ("STRT", "STOP", "STEP")] + [z.And(mu.eq_expr("NULL"), z.Not(nn.e if hasattr(nn, "e") else bool(nn)))]))


def _case_dup_conc(i):
    return i["section"] == "W" and i["mnemonic_case"] != 0 and (i["m"].upper() in ("STRT", "STOP", "STEP") or (i["m"].upper() == "NULL" and not i.get("no_nan", False)))


EXCLUSIONS = {"well_item_duplicating_STRT_STOP_STEP_NULL": (_dup_steer_sym, _dup_steer_conc),
              "well_item_case_mapped_onto_STRT_STOP_STEP_NULL": (_case_dup_sym, _case_dup_conc)}
NUMERIC = [("NI", "u", 7, "an int"), ("NF", "", 2.5, "a float"), ("NZ", "m", 0.0, "zero"), ("NE", "k", "", "empty with unit"), ("TX", "", "12,5W", "text with a comma")]


def tasks(tier):
    b = BOUNDS[tier]
    out = []
    for sec in b["sections"]:
        for comp in b["companions"]:
            for shp in W.shapes(b["field_len_cap"]):
                out.append({"name": "%s/%s/%s" % (sec, comp, "".join(map(str, shp))), "params": {"section": sec, "companion": comp, "shape": list(shp)}})
    # four-letter mnemonics in ~Well: long enough to spell STRT/STOP/STEP/NULL in any case mix, whose
    # value/description order depends on the version
    for comp in b["companions"]:
        for shp in ([(4, 0, 1, 1), (4, 1, 1, 1), (5, 0, 1, 1)] if tier == "quick" else [(n, a, b_, c) for n in (4, 5) for a in (0, 1) for b_ in (0, 1, 2) for c in (0, 1, 2)]):
            out.append({"name": "W/%s/%s" % (comp, "".join(map(str, shp))), "params": {"section": "W", "companion": comp, "shape": list(shp), "letters_only": True}})
    return out


def harness(ns, params):
    section, companion, shape = params["section"], params["companion"], tuple(params["shape"])

    def run():
        A = core.assume
        core.OPTS["concretize"] = True
        m, u, v, d = W.conformant_item("s", shape, section)
        if params.get("letters_only"):
            A(allc(m, lambda c: z.Or(z.in_range_c(c, 65, 90), z.in_range_c(c, 97, 122), z.in_range_c(c, 48, 57))))
            A(z.Not(z.in_range_c(m.chars[0], 48, 57)))
            core.witness("mixed-case-spelling-of-an-order-table-mnemonic", z.And(z.Or([SymStr.lift(m.upper()).eq_expr(n) for n in ("STRT", "STOP", "STEP", "NULL")]), z.Not(m.eq_expr(m.upper())), z.Not(m.eq_expr(m.lower()))))
        if shape[0] == 0:
            for x in (u, v, d):
                if isinstance(x, SymStr):
                    A(allc(x, not_char(".")))
        v12 = fresh_bool("version12")
        mc = fresh_int("mnemonic_case", 0, 2)
        first = fresh_bool("sym_first")
        big = fresh_bool("big_index")  # index samples around 1e9: STRT/STOP become the widest ~Well entries
        nn = fresh_bool("no_nan")  # data without NaN: the writer does not need the NULL item, so a duplicated NULL is writable
        if not params.get("letters_only"):
            A(z.Not(nn.e))
        inputs = {"section": section, "companion": companion, "shape": list(shape), "m": m, "u": u, "v": v, "d": d, "version12": v12, "mnemonic_case": mc, "sym_first": first, "big_index": big, "no_nan": nn}
        cx = core.ctx()
        cx.inputs = inputs
        apply_exclusions(inputs)
        version = 1.2 if bool(v12) else 2.0
        mcase = ["preserve", "upper", "lower"][mc.__index__()]
        las = W.base_las(ns, no_nan=bool(nn))
        if params.get("letters_only"):
            core.witness("second-NULL-item-written-and-read-back", z.And(SymStr.lift(m).eq_expr("NULL") if shape[0] == 4 else False, nn.e))
        if bool(big):
            list.__getitem__(las.curves, 0).data = np.array([1e9, 1e9 + 1.0])
            core.witness("STRT-is-the-widest-well-entry")
        if section in ("W", "P") and companion == "wide":
            for f in NUMERIC:
                las.sections[W.SECTIONS[section]].append(ns.items.HeaderItem(*f))
        W.add_items(ns, las, section, (m, u, v, d), companion, bool(first))
        core.witness("symbolic-item-is-widest", companion == "narrow" and shape[0] >= 1 and (shape[1] + shape[2]) >= 2)
        core.witness("symbolic-item-is-narrowest", companion == "wide")
        core.witness("version-1.2-well-order", version == 1.2 and section == "W")
        core.witness("blank-mnemonic", shape[0] == 0)
        core.witness("empty-value-with-unit-becomes-0", section in ("W", "P"))
        core.witness("case-mapped-mnemonic", mcase != "preserve" and shape[0] > 0)
        try:
            lines = W.write_lines(ns, las, version=version)
        except Exception as e:
            core.oblige("write-does-not-raise", False, info=repr(e)[:200])
            return {"observed": {"raised": "write:" + type(e).__name__}}
        exp = W.snapshot_sections(las)  # after write(): STRT/STOP/STEP refreshed, '' with unit -> 0 (documented)
        exp["Version"] = [(mm, uu, (version if mm == "VERS" else vv), dd) for (mm, uu, vv, dd) in exp["Version"]]
        las2 = ns.las.LASFile()
        try:
            las2.read(SymFile(lines), mnemonic_case=mcase, engine="normal")
        except Exception as e:
            core.oblige("written-file-is-readable", False, info=repr(e)[:200])
            return {"observed": {"raised": "read:" + type(e).__name__}}
        got = W.snapshot_sections(las2)
        skip_desc = (("Version", "VERS"),)  # the VERS description is replaced by the writer's standard text
        obl = W.sections_equal(got, exp, mnemonic_case=mcase, skip=())  # exp is the post-write state, so STRT/STOP/STEP are comparable too
        obl = [(n, c) for n, c in obl if not (n.startswith("Version[0]-descr"))]
        core.oblige_all(obl)
        # second cycle: the object the reader produced (case-mapped session names, reader-typed values)
        # is written again and read back as spelt
        try:
            lines2 = W.write_lines(ns, las2, version=version)
        except Exception as e:
            core.oblige("write-of-the-read-object-does-not-raise", False, info=repr(e)[:200])
            return {"observed": {"raised": "write2:" + type(e).__name__}}
        las3 = ns.las.LASFile()
        try:
            las3.read(SymFile(lines2), mnemonic_case="preserve", engine="normal")
        except Exception as e:
            core.oblige("second-written-file-is-readable", False, info=repr(e)[:200])
            return {"observed": {"raised": "read2:" + type(e).__name__}}
        obl2 = W.sections_equal(W.snapshot_sections(las3), exp, mnemonic_case=mcase, skip=())
        # the writer replaces the VERS item by its standard line (upper-case name, standard description)
        core.oblige_all([("cycle2-" + n, c) for n, c in obl2 if not n.startswith(("Version[0]-descr", "Version[0]-mnemonic"))])
        core.witness("second-cycle-compared")
        return {"observed": {"raised": None, "nlines": len(lines), "nlines2": len(lines2)}}

    return run


# ------------------------------------------------------------------------------ concrete oracle
def replay(i):
    import io
    import lasio

    section, companion = i["section"], i["companion"]
    version = 1.2 if i["version12"] else 2.0
    mcase = ["preserve", "upper", "lower"][i["mnemonic_case"]]

    class NS(object):
        pass

    ns = NS()
    ns.las = lasio.las
    ns.items = lasio.las_items
    las = W.base_las(ns, no_nan=bool(i.get("no_nan", False)))
    if i.get("big_index"):
        las.curves[0].data = np.array([1e9, 1e9 + 1.0])
    if section in ("W", "P") and companion == "wide":
        for f in NUMERIC:
            las.sections[W.SECTIONS[section]].append(lasio.HeaderItem(*f))
    W.add_items(ns, las, section, (i["m"], i["u"], i["v"], i["d"]), companion, i["sym_first"])
    out = io.StringIO()
    try:
        las.write(out, version=version)
    except Exception as e:
        return {"ok": False, "detail": "write raised %r" % (e,), "observed": {"raised": "write:" + type(e).__name__}}
    text = out.getvalue()
    exp = W.snapshot_sections(las)
    exp["Version"] = [(mm, uu, (version if mm == "VERS" else vv), dd) for (mm, uu, vv, dd) in exp["Version"]]
    try:
        las2 = lasio.read(text, mnemonic_case=mcase, engine="normal")
    except Exception as e:
        return {"ok": False, "detail": "read of the written text raised %r:\n%s" % (e, text), "observed": {"raised": "read:" + type(e).__name__}}
    got = W.snapshot_sections(las2)
    obl = W.sections_equal(got, exp, mnemonic_case=mcase, skip=())  # exp is the post-write state, so STRT/STOP/STEP are comparable too
    bad = [n for n, c in obl if not n.startswith("Version[0]-descr") and not bool(c)]
    text2 = None
    if not bad:
        out2 = io.StringIO()
        try:
            las2.write(out2, version=version)
            text2 = out2.getvalue()
            las3 = lasio.read(text2, mnemonic_case="preserve", engine="normal")
        except Exception as e:
            return {"ok": False, "detail": "second cycle (write of the object read with mnemonic_case=%s, read back) raised %r; first text:\n%s" % (mcase, e, text[:1200]), "observed": {"raised": ("write2:" if text2 is None else "read2:") + type(e).__name__}}
        obl2 = W.sections_equal(W.snapshot_sections(las3), exp, mnemonic_case=mcase, skip=())
        bad = ["cycle2-" + n for n, c in obl2 if not n.startswith(("Version[0]-descr", "Version[0]-mnemonic")) and not bool(c)]
        if bad:
            return {"ok": False, "detail": "differences %r after the second cycle; item (%r,%r,%r,%r) in ~%s; second text (version %s):\n%s\nread back: %r" % (bad, i["m"], i["u"], i["v"], i["d"], section, version, "\n".join(l for l in text2.splitlines() if not l[:1].isdigit())[:1500], W.snapshot_sections(las3).get(W.SECTIONS[section])),
                    "observed": {"raised": None, "nlines": len(text.splitlines()), "nlines2": len(text2.splitlines())}}
    return {"ok": not bad, "detail": "ok" if not bad else "differences %r; item (%r,%r,%r,%r) in ~%s written (version %s) as:\n%s\nread back (mnemonic_case=%s): %r" % (bad, i["m"], i["u"], i["v"], i["d"], section, version, "\n".join(l for l in text.splitlines() if not l[:1].isdigit())[:1500], mcase, got.get(W.SECTIONS[section])),
            "observed": dict({"raised": None, "nlines": len(text.splitlines())}, **({"nlines2": len(text2.splitlines())} if text2 is not None else {}))}
