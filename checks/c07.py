"""C07 - curves are rectangular and bound to their own column.

Kernel: the whole real LASFile.read (column sniffing, choice of the column count handed to
the reader, reshape, assignment of columns to declared curves, creation of extra curves, NaN
fill) for d declared curves and c data columns with c <, =, > d, both engines, unwrapped and
wrapped.  Cell (i, j) holds a numeral that identifies it, so any displacement is visible; the
layout (paddings, terminators) is symbolic as in C02.
"""
import numpy as np
from symlas import core, z, symnp
from symlas.driver import apply_exclusions
from symlas.stubs import SymFile
from symlas.values import SymStr, fresh_int, fresh_bool
from checks import datafile as DF

PROPERTY = "C07"
FUNCTIONS = [
    "lasio/las.py::LASFile.read",
    "lasio/reader.py::inspect_data_section",
    "lasio/reader.py::read_data_section_iterative_normal_engine",
    "lasio/reader.py::read_data_section_iterative_numpy_engine",
    "lasio/reader.py::identify_dtypes_from_data",
]
BOUNDS = {
    "quick": {"declared": [0, 1, 2, 3], "columns": [1, 2, 3], "rows": [1, 2], "pad_cap": 1, "wrapped": [[2, 2], [3, 2]], "task_budget_s": 900},
    "thorough": {"declared": [0, 1, 2, 3, 4], "columns": [1, 2, 3], "rows": [1, 2, 3], "pad_cap": 2, "wrapped": [[2, 2], [3, 2], [4, 2], [4, 3]], "task_budget_s": 3000},
}
ASSUMPTIONS = [
    "every data line carries the same number c of concrete numerals (unwrapped); paddings, LF/CRLF, final newline symbolic; numpy.genfromtxt is the validated contract stub of C02",
    "wrapped files (WRAP=YES, c = d values per depth step broken at a symbolic place): only rectangularity and absence of errors are required here; the cell mapping of wrapped files is C01's subject",
]
WITNESS_TARGETS = ["more-columns-than-curves", "fewer-columns-than-curves", "no-declared-curves", "data-section-followed-by-another-section"]
EXCLUSIONS = {}


def tasks(tier):
    b = BOUNDS[tier]
    out = []
    for d in b["declared"]:
        for c in b["columns"]:
            for r in b["rows"]:
                out.append({"name": "d%d-c%d-r%d" % (d, c, r), "params": {"d": d, "c": c, "r": r, "pcap": b["pad_cap"], "wrap": None}, "weight": c * r})
    # a text index column (time stamps, labels): curves without a column are still NaN *floats*
    for d, c in ((2, 1), (3, 2), (3, 1), (2, 2)):
        out.append({"name": "text-index-d%d-c%d-r2" % (d, c), "params": {"d": d, "c": c, "r": 2, "pcap": b["pad_cap"], "wrap": None, "text_index": True}, "weight": c * 2})
    for c, r in b["wrapped"]:
        out.append({"name": "wrapped-c%d-r%d" % (c, r), "params": {"d": c, "c": c, "r": r, "pcap": b["pad_cap"], "wrap": True}, "weight": c * r})
    return out


def wrapped_lines(r, c, split):
    """each depth step: first `split` values on one line, the rest on the next"""
    lines = []
    for i in range(r):
        toks = [DF.token(i, j, c) for j in range(c)]
        lines.append(" ".join(toks[:split]))
        if toks[split:]:
            lines.append(" ".join(toks[split:]))
    return lines


def harness(ns, params):
    d, c, r, pcap, wrap = params["d"], params["c"], params["r"], params["pcap"], params["wrap"]

    def run():
        core.OPTS["concretize"] = True
        DF.TEXT_INDEX[0] = bool(params.get("text_index"))
        crlf = fresh_bool("crlf")
        fnl = fresh_bool("final_newline")
        eng = fresh_bool("engine_numpy")
        split = fresh_int("split", 1, c)
        ek = fresh_int("extra_kind", 0, 2)  # none / comment line / blank line, at a symbolic position
        ep = fresh_int("extra_pos", 0, r)
        af = fresh_int("after", 0, 1)  # ~A is the last section / is followed by ~Other (~Parameter after ~A: C02, C05)
        crlf_c, fnl_c, eng_c = bool(crlf), bool(fnl), ("numpy" if bool(eng) else "normal")
        hdr = DF.header(c, declared=d, wrap="YES" if wrap else "NO")
        # declared curves after the index get symbolic one-character mnemonics (letters and digits:
        # a mnemonic that reads like a column position must not attract that column)
        names = ["DEPT"]
        from symlas.values import concat

        for k in range(1, d):
            ch = SymStr.fresh("cn%d" % k, 1, fixed_len=1)
            core.assume(z.Or(z.in_range_c(ch.chars[0], 48, 57), z.in_range_c(ch.chars[0], 65, 90)))
            for prev in names[1:]:
                core.assume(z.Not(ch.eq_expr(prev)))
            names.append(ch)
            hdr[[i for i, l in enumerate(hdr) if isinstance(l, str) and l.startswith(("GR.", "RHOB.", "NPHI.", "DT.", "CALI."))][0]] = concat([ch, ".U%d : c%d" % (k, k)])
        if wrap:
            sp = split.__index__()
            sect = ["~ASCII"] + wrapped_lines(r, c, sp)
            core.assume(z.And(z.eq_i(ek.e, 0), z.eq_i(ep.e, 0), z.eq_i(af.e, 0)))
        else:
            core.assume(z.eq_i(split.e, 1))
            ekc = ["none", "comment", "blank"][ek.__index__()]
            epc = ep.__index__() if ekc != "none" else 0
            if ekc == "none":
                core.assume(z.eq_i(ep.e, 0))
            afc = ["last", "O"][af.__index__()]
            core.witness("data-section-followed-by-another-section", afc != "last" and c != d)
            sect = DF.build_data_section(r, c, pcap, afc, ekc, epc, crlf_c, fnl_c)
        dlines = [l for l in sect[1:]]
        inputs = {"d": d, "c": c, "r": r, "wrap": bool(wrap), "split": split, "crlf": crlf, "final_newline": fnl, "engine_numpy": eng, "data_lines": dlines, "names": names[1:], "extra_kind": ek, "extra_pos": ep, "after": af, "text_index": bool(params.get("text_index"))}
        cx = core.ctx()
        cx.inputs = inputs
        apply_exclusions(inputs)
        core.witness("more-columns-than-curves", c > d)
        core.witness("fewer-columns-than-curves", c < d)
        core.witness("no-declared-curves", d == 0)
        lines = hdr + sect
        terms = [("\r\n" if crlf_c else "\n")] * len(lines)
        if not fnl_c:
            terms[-1] = ""
        las = ns.las.LASFile()
        try:
            las.read(SymFile(lines, terms), engine=eng_c)
        except Exception as e:
            core.oblige("read-does-not-raise", False, info=repr(e)[:200])
            return {"observed": {"raised": type(e).__name__}}
        cols = DF.curves_as_lists(las)
        cvs = list(list.__iter__(las.curves))
        obl = [("rectangular", len({len(x) for x in cols}) <= 1)]
        if not wrap:
            exp = DF.expected_matrix(r, c)
            n = max(c, d)
            obl.append(("number-of-curves", len(cols) == n))
            if len(cols) == n:
                obl.append(("cells-bound-to-their-column", DF.same_cols(cols[:c], exp)))
                obl.append(("curves-without-column-are-NaN", all(len(x) == r and all(isinstance(v, float) and v != v for v in x) for x in cols[c:])))
                obl.append(("declared-curves-keep-order-and-metadata", z.And([z.And(SymStr.lift(cvs[k].original_mnemonic).eq_expr(names[k]), cvs[k].unit == ("M" if k == 0 else "U%d" % k), cvs[k].descr == "c%d" % k) for k in range(d)])))
                obl.append(("surplus-columns-are-unnamed-curves", all(cvs[k].original_mnemonic == "" for k in range(d, n))))
        core.oblige_all(obl)
        return {"observed": {"raised": None, "curves": cols}}

    return run


# ------------------------------------------------------------------------------ concrete oracle
def replay(i):
    import lasio

    d, c, r, wrap = i["d"], i["c"], i["r"], i["wrap"]
    DF.TEXT_INDEX[0] = bool(i.get("text_index"))
    hdr = DF.header(c, declared=d, wrap="YES" if wrap else "NO")
    names = ["DEPT"] + list(i.get("names", []))
    k = 1
    for li, l in enumerate(hdr):
        if l.startswith(("GR.", "RHOB.", "NPHI.", "DT.", "CALI.")) and k < len(names):
            hdr[li] = "%s.U%d : c%d" % (names[k], k, k)
            k += 1
    lines = hdr + ["~ASCII"] + list(i["data_lines"])
    nl = "\r\n" if i["crlf"] else "\n"
    text = nl.join(lines) + (nl if i["final_newline"] else "")
    eng = "numpy" if i["engine_numpy"] else "normal"
    try:
        las = lasio.read(text, engine=eng)
    except Exception as e:
        return {"ok": False, "detail": "engine=%s raised %r for %r" % (eng, e, text), "observed": {"raised": type(e).__name__}}
    cols = DF.curves_as_lists(las)
    problems = []
    if len({len(x) for x in cols}) > 1:
        problems.append("curves have different lengths: %r" % ([len(x) for x in cols],))
    if not wrap:
        exp = DF.expected_matrix(r, c)
        n = max(c, d)
        if len(cols) != n:
            problems.append("%d curves, expected %d" % (len(cols), n))
        else:
            if not DF.same_cols(cols[:c], exp):
                problems.append("columns read as %r, file holds %r" % (cols[:c], exp))
            if not all(len(x) == r and all(isinstance(v, float) and v != v for v in x) for x in cols[c:]):
                problems.append("curves without a column are %r" % (cols[c:],))
            if not all(las.curves[k].original_mnemonic == names[k] and las.curves[k].unit == ("M" if k == 0 else "U%d" % k) and las.curves[k].descr == "c%d" % k for k in range(d)):
                problems.append("declared curves changed: %r" % ([(cv.original_mnemonic, cv.unit, cv.descr) for cv in las.curves],))
            if not all(las.curves[k].original_mnemonic == "" for k in range(d, n)):
                problems.append("surplus curves are named %r" % ([cv.original_mnemonic for cv in las.curves[d:]],))
    return {"ok": not problems, "detail": ("; ".join(problems) + " engine=%s file %r" % (eng, text)) if problems else "ok",
            "observed": {"raised": None, "curves": cols}}


def validate():
    return symnp.validate_genfromtxt()
