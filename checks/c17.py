"""C17 - pickle and deepcopy reproduce a LASFile exactly, duplicates included.

Kernel: HeaderItem.__reduce__, CurveItem.__init__, SectionItems (default list-subclass
reduce + append hook), LASFile.__init__ executed under the *real* copy.deepcopy and the
*real* pure-Python pickle._Pickler/_Unpickler (protocols 0-5); symbolic strings travel as
persistent ids (they are immutable leaves).  Mnemonics, the case-normalisation flag and
text fields are solver variables, so duplicates, blanks and case variants are all inside.
"""
import copy
import io
import pickle
from symlas import core, z
from symlas.driver import apply_exclusions
from symlas.values import SymStr, SymInt, SymBool, B, fresh_bool
from checks.common import allc, printable_ascii

PROPERTY = "C17"
FUNCTIONS = [
    "lasio/las_items.py::HeaderItem.__reduce__",
    "lasio/las_items.py::HeaderItem.__init__",
    "lasio/las_items.py::HeaderItem.__setattr__",
    "lasio/las_items.py::CurveItem.__init__",
    "lasio/las_items.py::SectionItems.__init__",
    "lasio/las_items.py::SectionItems.append",
    "lasio/las_items.py::SectionItems.assign_duplicate_suffixes",
    "lasio/las.py::LASFile.__init__",
]
METHODS = ["deepcopy", "pickle0", "pickle1", "pickle2", "pickle3", "pickle4", "pickle5"]
TARGETS = ["item", "section", "curves", "lasfile"]
ALPHABET = "Aa :1"
BOUNDS = {
    "quick": {"items": 3, "name_cap": 2, "text_cap": 2, "methods": ["deepcopy", "pickle0", "pickle2", "pickle5"], "targets": TARGETS, "alphabet": ALPHABET, "task_budget_s": 600},
    "thorough": {"items": 3, "name_cap": 3, "text_cap": 2, "methods": METHODS, "targets": TARGETS, "alphabet": ALPHABET, "task_budget_s": 3000},
}
ASSUMPTIONS = [
    "sections are in a state reachable by reading/appending (built by appends); states with stale suffixes after deletions are outside",
    "curve arrays are concrete float/str numpy arrays (numpy's own pickling is trusted)",
    "symbolic strings are immutable leaves: passed through deepcopy by identity and through pickle as persistent ids",
    "byte-identical write() output is checked by C16/C03 on concrete files, here structural equality of everything write() reads",
]
WITNESS_TARGETS = ["duplicates-present", "blank-present", "case-normalised-section"]
EXCLUSIONS = {}

_TOKENS = {}


class _P(pickle._Pickler):
    def persistent_id(self, obj):
        if isinstance(obj, (SymStr, SymInt, SymBool)):
            k = "sym%d" % id(obj)
            _TOKENS[k] = obj
            return k
        return None


class _U(pickle._Unpickler):
    def __init__(self, f, classes):
        super().__init__(f)
        self._classes = classes

    def persistent_load(self, pid):
        return _TOKENS[pid]

    def find_class(self, module, name):
        # the instrumented modules are not importable by name: resolve to them
        if module.startswith("lasio_sym."):
            return getattr(self._classes[module.split(".", 1)[1]], name)
        return super().find_class(module, name)


def roundtrip(ns, obj, method):
    if method == "deepcopy":
        return copy.deepcopy(obj)
    proto = int(method[len("pickle"):])
    f = io.BytesIO()
    _P(f, protocol=proto).dump(obj)
    f.seek(0)
    return _U(f, {"las_items": ns.las_items, "las": ns.las, "defaults": ns.defaults}).load()


def tasks(tier):
    b = BOUNDS[tier]
    return [{"name": "%s/%s" % (t, m), "params": {"target": t, "method": m, "k": b["items"], "ncap": b["name_cap"], "tcap": b["text_cap"]}} for t in b["targets"] for m in b["methods"]]


def _eqv(a, b):
    if isinstance(a, (str, SymStr)) and isinstance(b, (str, SymStr)):
        return SymStr.lift(a).eq_expr(b)
    if isinstance(a, (str, SymStr)) or isinstance(b, (str, SymStr)):
        return False
    import numpy as np

    if isinstance(a, np.ndarray) or isinstance(b, np.ndarray):
        return bool(isinstance(a, np.ndarray) and isinstance(b, np.ndarray) and a.dtype == b.dtype and a.shape == b.shape and np.array_equal(a, b, equal_nan=a.dtype.kind == "f"))
    if a is None or b is None:
        return a is b
    if isinstance(a, float) and a != a:
        return isinstance(b, float) and b != b
    return bool(type(a) == type(b) and a == b)


def item_eq(a, b):
    return z.And(type(a) is type(b), _eqv(a.mnemonic, b.mnemonic), _eqv(a.original_mnemonic, b.original_mnemonic), _eqv(a.unit, b.unit), _eqv(a.value, b.value), _eqv(a.descr, b.descr), _eqv(a.data, b.data))


def section_eq(a, b):
    if isinstance(a, (str, SymStr)) or isinstance(b, (str, SymStr)):
        return _eqv(a, b)
    la, lb = list(list.__iter__(a)), list(list.__iter__(b))
    if type(a) is not type(b) or len(la) != len(lb):
        return False
    return z.And([bool(a.mnemonic_transforms) == bool(b.mnemonic_transforms)] + [item_eq(x, y) for x, y in zip(la, lb)])


def harness(ns, params):
    import numpy as np

    target, method, k, ncap, tcap = params["target"], params["method"], params["k"], params["ncap"], params["tcap"]
    HeaderItem, CurveItem, SectionItems = ns.items.HeaderItem, ns.items.CurveItem, ns.items.SectionItems
    codes = tuple(ord(c) for c in ALPHABET)

    def run():
        A = core.assume
        tr = fresh_bool("transforms")
        names, units, values, descrs = [], [], [], []
        for t in range(k):
            nm = SymStr.fresh("n%d" % t, ncap)
            A(allc(nm, lambda c: z.in_set_c(c, codes)))
            names.append(nm)
            for lst, tag in ((units, "u"), (values, "v"), (descrs, "d")):
                x = SymStr.fresh("%s%d" % (tag, t), tcap)
                A(allc(x, printable_ascii))
                lst.append(x)
        inputs = {"target": target, "method": method, "names": names, "units": units, "values": values, "descrs": descrs, "transforms": tr}
        c = core.ctx()
        c.inputs = inputs
        apply_exclusions(inputs)
        trz = bool(tr)
        if trz:
            core.witness("case-normalised-section")
        is_curves = target in ("curves", "lasfile")
        s = SectionItems()
        if trz:
            s.mnemonic_transforms = True
        for t in range(k):
            if is_curves:
                data = np.array([1.5 + t, np.nan, -3.0]) if t != 1 else np.array(["a", "b", "c"])
                s.append(CurveItem(names[t], units[t], values[t], descrs[t], data=data))
            else:
                s.append(HeaderItem(names[t], units[t], values[t], descrs[t]))
        items = list(list.__iter__(s))
        core.witness("duplicates-present", SymStr.lift(items[0].mnemonic).contains(":").e if isinstance(SymStr.lift(items[0].mnemonic).contains(":"), SymBool) else SymStr.lift(items[0].mnemonic).contains(":"))
        core.witness("blank-present", SymStr.lift(SymStr.lift(names[0]).strip()).eq_expr(""))
        if target == "item":
            obl = []
            copies = []
            for it in items:
                cp = roundtrip(ns, it, method)
                copies.append(cp)
                obl.append(("item-copy-equal", item_eq(it, cp)))
                obl.append(("item-copy-is-new-object", cp is not it))
            core.oblige_all(obl)
            obs = [[cp.original_mnemonic] for cp in copies]
            snap = [(it.mnemonic, it.original_mnemonic, it.unit, it.value, it.descr) for it in items]
            for cp in copies:
                cp.value = "mutated"
                cp.mnemonic = "ZZ"
            core.oblige("original-unaffected-by-mutating-copy", z.And([z.And(_eqv(it.mnemonic, m), _eqv(it.original_mnemonic, o), _eqv(it.unit, u), _eqv(it.value, v), _eqv(it.descr, d)) for it, (m, o, u, v, d) in zip(items, snap)]))
        elif target in ("section", "curves"):
            cp = roundtrip(ns, s, method)
            core.oblige("section-copy-equal", section_eq(s, cp))
            cpi = list(list.__iter__(cp))
            core.oblige("section-copy-shares-no-item", not any(x is y for x in cpi for y in items) and cp is not s)
            snap = [(it.mnemonic, it.original_mnemonic, it.unit, it.value, it.descr, None if it.data is None else np.array(it.data, copy=True)) for it in items]
            if cpi:
                cpi[0].value = "mutated"
                if is_curves and cpi[0].data.dtype.kind == "f":
                    cpi[0].data[0] = 99.0
                cp.append(type(cpi[0])("NEW"))
                del cp[0]
            core.oblige("original-unaffected-by-mutating-copy", z.And([len(list(list.__iter__(s))) == len(snap)] + [z.And(_eqv(it.mnemonic, m), _eqv(it.original_mnemonic, o), _eqv(it.unit, u), _eqv(it.value, v), _eqv(it.descr, d), _eqv(it.data, dt) if is_curves else True) for it, (m, o, u, v, d, dt) in zip(items, snap)]))
            obs = [[x.mnemonic, x.original_mnemonic] for x in list(list.__iter__(roundtrip(ns, s, method)))]
        else:
            las = ns.las.LASFile()
            las.sections["Curves"] = s
            las.sections["Parameter"].append(HeaderItem(names[0], units[0], values[0], descrs[0]))
            las.sections["Parameter"].append(HeaderItem(names[1], units[1], values[1], descrs[1]))
            las.sections["Other"] = "free text"
            las.index_unit = "M"
            las.index_initial = np.array([0.5, 1.5, 2.5])  # as after read() followed by an edit of the index
            las.encoding = "utf-8"
            cp = roundtrip(ns, las, method)
            obl = [("lasfile-same-section-keys", list(cp.sections.keys()) == list(las.sections.keys())), ("lasfile-index-unit", cp.index_unit == las.index_unit),
                   ("lasfile-same-attributes", sorted(vars(cp).keys()) == sorted(vars(las).keys())),
                   ("lasfile-copy-is-new-object", cp is not las and cp.sections is not las.sections)]
            for key in las.sections:
                if key in cp.sections:
                    obl.append(("lasfile-section-%s-equal" % key, section_eq(las.sections[key], cp.sections[key])))
            for attr, val in vars(las).items():
                if attr != "sections" and attr in vars(cp):
                    obl.append(("lasfile-attribute-%s-equal" % attr, _eqv(val, vars(cp)[attr])))
            core.oblige_all(obl)
            snapk = [(it.mnemonic, it.value) for it in list(list.__iter__(las.curves))]
            cp.curves[0].value = "mutated" if len(list(list.__iter__(cp.curves))) else None
            cp.well["NULL"].value = 0
            cp.sections["Other"] = "changed"
            core.oblige("original-unaffected-by-mutating-copy", z.And([las.sections["Other"] == "free text", las.well["NULL"].value == -9999.25] + [z.And(_eqv(it.mnemonic, m), _eqv(it.value, v)) for it, (m, v) in zip(list(list.__iter__(las.curves)), snapk)]))
            obs = [[x.mnemonic, x.original_mnemonic] for x in list(list.__iter__(roundtrip(ns, las, method).curves))]
        return {"observed": obs}

    return run


# ------------------------------------------------------------------------------ concrete oracle
def replay(i):
    import numpy as np
    import lasio

    target, method, names, units, values, descrs, tr = i["target"], i["method"], i["names"], i["units"], i["values"], i["descrs"], i["transforms"]
    k = len(names)

    def rt(obj):
        if method == "deepcopy":
            return copy.deepcopy(obj)
        return pickle.loads(pickle.dumps(obj, protocol=int(method[len("pickle"):])))

    def ieq(a, b):
        def deq(x, y):
            if x is None or y is None:
                return x is y
            x, y = np.asarray(x), np.asarray(y)
            return x.dtype == y.dtype and x.shape == y.shape and np.array_equal(x, y, equal_nan=x.dtype.kind == "f")

        def veq(x, y):
            if isinstance(x, float) and x != x:
                return isinstance(y, float) and y != y
            return type(x) == type(y) and x == y

        return type(a) is type(b) and (a.mnemonic, a.original_mnemonic, a.unit, a.descr) == (b.mnemonic, b.original_mnemonic, b.unit, b.descr) and veq(a.value, b.value) and deq(a.data, b.data)

    def seq(a, b):
        if isinstance(a, str) or isinstance(b, str):
            return a == b
        return type(a) is type(b) and len(a) == len(b) and a.mnemonic_transforms == b.mnemonic_transforms and all(ieq(x, y) for x, y in zip(list.__iter__(a), list.__iter__(b)))

    is_curves = target in ("curves", "lasfile")
    s = lasio.SectionItems()
    if tr:
        s.mnemonic_transforms = True
    for t in range(k):
        if is_curves:
            data = np.array([1.5 + t, np.nan, -3.0]) if t != 1 else np.array(["a", "b", "c"])
            s.append(lasio.CurveItem(names[t], units[t], values[t], descrs[t], data=data))
        else:
            s.append(lasio.HeaderItem(names[t], units[t], values[t], descrs[t]))
    items = list(list.__iter__(s))
    problems = []
    if target == "item":
        copies = [rt(it) for it in items]
        for it, cp in zip(items, copies):
            if not ieq(it, cp):
                problems.append("copy of item %r (original %r) is %r (original %r)" % (it.mnemonic, it.original_mnemonic, cp.mnemonic, cp.original_mnemonic))
        obs = [[cp.original_mnemonic] for cp in copies]
        snap = [(it.mnemonic, it.original_mnemonic, it.unit, it.value, it.descr) for it in items]
        for cp in copies:
            cp.value = "mutated"
            cp.mnemonic = "ZZ"
        if snap != [(it.mnemonic, it.original_mnemonic, it.unit, it.value, it.descr) for it in items]:
            problems.append("mutating the copy changed the original")
    elif target in ("section", "curves"):
        cp = rt(s)
        if not seq(s, cp):
            problems.append("section copy differs: %r vs %r" % ([(x.mnemonic, x.original_mnemonic) for x in items], [(x.mnemonic, x.original_mnemonic) for x in list.__iter__(cp)]))
        obs = [[x.mnemonic, x.original_mnemonic] for x in list.__iter__(cp)]
        snap = [(it.mnemonic, it.original_mnemonic, it.unit, it.value, it.descr, None if it.data is None else np.array(it.data, copy=True)) for it in items]
        cpi = list(list.__iter__(cp))
        if cpi:
            cpi[0].value = "mutated"
            if is_curves and cpi[0].data.dtype.kind == "f":
                cpi[0].data[0] = 99.0
            cp.append(type(cpi[0])("NEW"))
            del cp[0]
        now = list(list.__iter__(s))
        if len(now) != len(snap) or any((it.mnemonic, it.original_mnemonic, it.unit, it.value, it.descr) != sn[:5] or (is_curves and not np.array_equal(it.data, sn[5], equal_nan=it.data.dtype.kind == "f")) for it, sn in zip(now, snap)):
            problems.append("mutating the copy changed the original")
    else:
        las = lasio.LASFile()
        las.sections["Curves"] = s
        las.sections["Parameter"].append(lasio.HeaderItem(names[0], units[0], values[0], descrs[0]))
        las.sections["Parameter"].append(lasio.HeaderItem(names[1], units[1], values[1], descrs[1]))
        las.sections["Other"] = "free text"
        las.index_unit = "M"
        las.index_initial = np.array([0.5, 1.5, 2.5])
        las.encoding = "utf-8"
        cp = rt(las)
        if list(cp.sections.keys()) != list(las.sections.keys()) or cp.index_unit != las.index_unit:
            problems.append("LASFile copy has different sections/index unit")
        if sorted(vars(cp)) != sorted(vars(las)):
            problems.append("LASFile copy has attributes %r, original %r" % (sorted(vars(cp)), sorted(vars(las))))
        for attr, val in vars(las).items():
            if attr != "sections" and attr in vars(cp):
                o = vars(cp)[attr]
                same = (isinstance(val, np.ndarray) and isinstance(o, np.ndarray) and np.array_equal(val, o)) or (not isinstance(val, np.ndarray) and val == o)
                if not same:
                    problems.append("LASFile attribute %s: %r in the original, %r in the copy" % (attr, val, o))
        for key in las.sections:
            if key in cp.sections and not seq(las.sections[key], cp.sections[key]):
                problems.append("section %s differs in the copy: %r vs %r" % (key, las.sections[key], cp.sections[key]))
        import io as _io

        a, b = _io.StringIO(), _io.StringIO()
        try:
            las.write(a)
            cp.write(b)
            if a.getvalue() != b.getvalue():
                problems.append("write() output of the copy differs")
        except Exception as e:  # writing is not the subject here
            pass
        obs = [[x.mnemonic, x.original_mnemonic] for x in list.__iter__(cp.curves)]
        cp.curves[0].value = "mutated"
        cp.well["NULL"].value = 0
        cp.sections["Other"] = "changed"
        if las.sections["Other"] != "free text" or las.well["NULL"].value != -9999.25 or las.curves[0].value == "mutated":
            problems.append("mutating the copy changed the original")
    return {"ok": not problems, "detail": "; ".join(problems) or "ok", "observed": obs}
