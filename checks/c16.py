"""C16 - write() is deterministic, leaves data alone and states STRT/STOP/STEP truthfully.

Kernel: the real writer.write with LASFile.update_start_stop_step /
update_units_from_index_curve / standardize_value on LASFiles in the states "built from
scratch", "read and unchanged", "read, index edited", "read, STOP disagreeing with the data",
"read, another curve edited", with increasing / decreasing / single-sample / irregular indexes,
writer options (version, wrap, fmt, STRT/STOP/STEP left to lasio) as symbolic choices and one
symbolic header item (shape case-split as in C03).  Two consecutive writes per run.
"""
import numpy as np
from symlas import core, z
from symlas.driver import apply_exclusions
from symlas.stubs import SymFile, OutFile
from symlas.values import SymStr, fresh_int, fresh_bool
from checks import writerlib as W

PROPERTY = "C16"
FUNCTIONS = [
    "lasio/writer.py::write",
    "lasio/writer.py::standardize_value",
    "lasio/writer.py::get_section_widths",
    "lasio/writer.py::get_formatter_function",
    "lasio/las.py::LASFile.update_start_stop_step",
    "lasio/las.py::LASFile.update_units_from_index_curve",
]
STATES = ["scratch", "read-unchanged", "read-index-edited", "read-stop-mismatch", "read-other-curve-edited", "really-read-index-edited-in-place", "scratch-no-header-units", "really-read-integer-stop-mismatch"]
INDEXES = {"increasing": [1.0, 2.0, 3.0], "decreasing": [30.0, 20.0, 10.0], "single": [5.0], "irregular": [1.0, 2.0, 4.5], "fractional": [1000.125, 1000.75, 1001.375]}
BOUNDS = {
    "quick": {"field_len_cap": 1, "sections": ["W", "P"], "states": STATES, "indexes": list(INDEXES), "task_budget_s": 900},
    "thorough": {"field_len_cap": 2, "sections": ["V", "W", "C", "P"], "states": STATES, "indexes": list(INDEXES), "task_budget_s": 3000},
}
ASSUMPTIONS = [
    "index samples are concrete floats (four index shapes); the symbolic part is one header item (all characters symbolic, field lengths by exhaustive case-split) and the option choices",
    "'to format precision': the written STRT/STOP/STEP tokens are compared with fmt % value (libc formatting trusted)",
    "documented in-memory effects allowed: STRT/STOP/STEP values and units, first curve's unit, the WRAP item when wrap= is given, empty ~Well/~Parameter values with a unit -> 0",
]
WITNESS_TARGETS = ["refresh-required", "refresh-not-required", "wrap-option-given", "version-option-differs-from-memory", "single-sample-index"]
EXCLUSIONS = {}
OPTS = [{}, {"version": 1.2}, {"version": 2}, {"wrap": True}, {"wrap": False}, {"fmt": "%.2f"}, {"version": 1.2, "wrap": True, "fmt": "%.3f"}, {"fmt": "%.0f", "column_fmt": {0: "%.3f"}}]


def tol(opts, k):
    """'to format precision': half a unit of the last digit the index column is printed with (a whole unit for STEP,
    a difference of two printed values)"""
    import re

    f = opts.get("column_fmt", {}).get(0, opts.get("fmt", "%.5f"))
    m = re.search(r"\.(\d+)f", f)
    p = int(m.group(1)) if m else 5
    return (1.0 if k == "STEP" else 0.5) * 10 ** (-p) * (1 + 1e-9)


def tasks(tier):
    b = BOUNDS[tier]
    out = []
    for sec in b["sections"]:
        for st in b["states"]:
            for shp in W.shapes(b["field_len_cap"]):
                if tier == "quick" and shp[0] == 0:
                    continue
                out.append({"name": "%s/%s/%s" % (sec, st, "".join(map(str, shp))), "params": {"section": sec, "state": st, "shape": list(shp)}})
    return out


def build(ns, section, fields, state, idx_name):
    HeaderItem = ns.items.HeaderItem
    idx = np.array(INDEXES[idx_name])
    if state in ("really-read-index-edited-in-place", "really-read-integer-stop-mismatch"):
        # a LASFile that really went through read(), then an edit of the index *in place* - or no edit at all
        # but a STOP line holding an integer literal (read as numpy.int64) that disagrees with the last sample
        stop = "STOP.FT %r : e" % float(idx[-1]) if state == "really-read-index-edited-in-place" else "STOP.FT %d : e" % (int(idx[-1]) + 7)
        lines = ["~Version", "VERS. 2.0 : v", "WRAP. NO : w", "~Well", "STRT.FT %r : s" % float(idx[0]), stop, "STEP.FT %r : i" % (float(idx[1] - idx[0]) if len(idx) > 1 else 0.0),
                 "NULL. -999.25 : n", "COMP. ACME : c", "~Curve", "DEPT.FT : depth", "GR.API : gamma", "~Parameter", "NE.k : empty value with unit", "~A"] + ["%r %r" % (float(x), 10.0 + 1.5 * k) for k, x in enumerate(idx)]
        las = ns.las.LASFile()
        las.read(SymFile(lines), engine="normal")
        W.add_items(ns, las, section, fields, "narrow", True)
        if state == "really-read-integer-stop-mismatch":
            return las
        if len(idx) > 1:
            las.index[:-1] -= 0.25  # the last sample (and so STOP) stays
        else:
            las.index[0] += 0.0
        return las
    las = ns.las.LASFile()
    las.append_curve("DEPT", idx.copy(), unit="FT", descr="depth")
    las.append_curve("GR", np.arange(len(idx)) * 1.5 + 10.0, unit="API", descr="gamma")
    las.well["STRT"].unit = "M"
    las.well["COMP"].value = "ACME"
    las.params.append(HeaderItem("NE", "k", "", "empty value with unit"))
    W.add_items(ns, las, section, fields, "narrow", True)
    if state == "scratch-no-header-units":
        for k in ("STRT", "STOP", "STEP"):
            las.well[k].unit = ""
        return las
    if state != "scratch":
        # as after read(): header values as read from a file, index_initial set
        las.well["STRT"].value, las.well["STOP"].value, las.well["STEP"].value = float(idx[0]), float(idx[-1]), (float(idx[1] - idx[0]) if len(idx) > 1 else 0.0)
        las.index_initial = idx.copy()
        if state == "read-index-edited":
            list.__getitem__(las.curves, 0).data = idx + 100.0
        elif state == "read-stop-mismatch":
            las.well["STOP"].value = float(idx[-1]) + 7.0
        elif state == "read-other-curve-edited":
            list.__getitem__(las.curves, 1).data = list.__getitem__(las.curves, 1).data * 2.0
    return las


def full_snapshot(las):
    return {"sections": W.snapshot_sections(las), "data": [np.array(cv.data, copy=True) for cv in list.__iter__(las.curves)], "index_unit": las.index_unit,
            "index_initial": None if las.index_initial is None else np.array(las.index_initial, copy=True), "curve_units": [cv.unit for cv in list.__iter__(las.curves)]}


def frame_obligations(before, after, opts, tag):
    obl = []
    obl.append((tag + "data-untouched", len(before["data"]) == len(after["data"]) and all(np.array_equal(a, b) for a, b in zip(before["data"], after["data"]))))
    obl.append((tag + "index-initial-untouched", (before["index_initial"] is None) == (after["index_initial"] is None) and (before["index_initial"] is None or np.array_equal(before["index_initial"], after["index_initial"]))))
    obl.append((tag + "index-unit-untouched", before["index_unit"] == after["index_unit"]))
    obl.append((tag + "other-curve-units-untouched", before["curve_units"][1:] == after["curve_units"][1:]))
    bs, as_ = before["sections"], after["sections"]
    obl.append((tag + "same-sections", list(bs.keys()) == list(as_.keys())))
    for name in bs:
        if isinstance(bs[name], (str, SymStr)):
            obl.append((tag + "section-%s" % name, W.text_equal(bs[name], as_[name])))
            continue
        if len(bs[name]) != len(as_[name]):
            obl.append((tag + "section-%s-count" % name, False))
            continue
        for k, ((m, u, v, d), (m2, u2, v2, d2)) in enumerate(zip(bs[name], as_[name])):
            nm = m if isinstance(m, str) else "sym"
            obl.append((tag + "%s[%d]-mnemonic-descr" % (name, k), z.And(W.text_equal(m, m2), W.text_equal(d, d2) if not (name == "Version" and nm == "WRAP" and "wrap" in opts) else True)))
            if name == "Well" and nm in ("STRT", "STOP", "STEP"):
                continue  # documented
            if name == "Curves" and k == 0:
                obl.append((tag + "index-curve-value", W.value_equal(v, v2)))
                continue  # its unit may be aligned (documented)
            if name == "Version" and nm == "WRAP" and "wrap" in opts:
                continue  # documented
            obl.append((tag + "%s[%d]-unit" % (name, k), W.text_equal(u, u2)))
            empty_with_unit = name in ("Well", "Parameter") and (not isinstance(u, str) or u != "") and isinstance(v, str) and v == ""
            if empty_with_unit:
                obl.append((tag + "%s[%d]-value-normalised" % (name, k), (isinstance(v2, int) and v2 == 0) or W.value_equal(v, v2)))
            else:
                obl.append((tag + "%s[%d]-value" % (name, k), W.value_equal(v, v2) and type(v) == type(v2) if not isinstance(v, SymStr) else W.value_equal(v, v2)))
    return obl


def written_value(lines, mnemonic):
    """(unit, value text) of the first written ~Well line for this mnemonic"""
    for ln in lines:
        if isinstance(ln, str) and ln.startswith(mnemonic) and "." in ln:
            head, _, rest = ln.partition(".")
            if head.strip() == mnemonic:
                body = rest.rsplit(":", 1)[0]
                parts = body.split(None, 1)
                if len(parts) == 2:
                    return parts[0], parts[1].strip()
                if body[:1] in (" ", "\t") or not parts:
                    return "", (parts[0] if parts else "")
                return parts[0], ""
    return None, None


def harness(ns, params):
    section, state, shape = params["section"], params["state"], tuple(params["shape"])

    def run():
        core.OPTS["concretize"] = True
        m, u, v, d = W.conformant_item("s", shape, section)
        oi = fresh_int("options", 0, len(OPTS) - 1)
        ii = fresh_int("index", 0, len(INDEXES) - 1)
        inputs = {"section": section, "state": state, "shape": list(shape), "m": m, "u": u, "v": v, "d": d, "options": oi, "index": ii}
        cx = core.ctx()
        cx.inputs = inputs
        apply_exclusions(inputs)
        opts = dict(OPTS[oi.__index__()])
        idx_name = list(INDEXES)[ii.__index__()]
        las = build(ns, section, (m, u, v, d), state, idx_name)
        core.witness("wrap-option-given", "wrap" in opts)
        core.witness("version-option-differs-from-memory", opts.get("version") == 1.2)
        core.witness("single-sample-index", idx_name == "single")
        s0 = full_snapshot(las)
        index_now = np.array(list.__getitem__(las.curves, 0).data, copy=True)
        refresh = state in ("scratch", "read-index-edited", "read-stop-mismatch", "scratch-no-header-units", "really-read-integer-stop-mismatch") or (state == "really-read-index-edited-in-place" and idx_name != "single")
        core.witness("refresh-required", refresh)
        core.witness("refresh-not-required", not refresh)
        try:
            out1 = OutFile()
            ns.writer.write(las, out1, **opts)
            lines1 = out1.lines()
            s1 = full_snapshot(las)
            out2 = OutFile()
            ns.writer.write(las, out2, **opts)
            lines2 = out2.lines()
            s2 = full_snapshot(las)
        except Exception as e:
            core.oblige("write-does-not-raise", False, info=repr(e)[:200])
            return {"observed": {"raised": type(e).__name__}}
        obl = frame_obligations(s0, s1, opts, "first-write:")
        obl.append(("in-memory-VERS-untouched", [x for x in s1["sections"]["Version"] if x[0] == "VERS"] == [x for x in s0["sections"]["Version"] if x[0] == "VERS"]))
        # determinism: byte-identical text, no further in-memory change
        obl.append(("second-write-same-number-of-lines", len(lines1) == len(lines2)))
        if len(lines1) == len(lines2):
            obl.append(("second-write-identical-text", z.And([W.text_equal(a, b) for a, b in zip(lines1, lines2)])))
        obl += [(n.replace("first-write:", "second-write-no-change:"), c) for n, c in frame_obligations(s1, s2, {}, "first-write:")]
        for k in ("STRT", "STOP", "STEP"):
            a = [x for x in s1["sections"]["Well"] if x[0] == k]
            b = [x for x in s2["sections"]["Well"] if x[0] == k]
            obl.append(("second-write-keeps-%s" % k, len(a) == 1 and len(b) == 1 and a[0][1] == b[0][1] and W.value_equal(a[0][2], b[0][2])))
        # truthful STRT/STOP/STEP in the output
        fmt = opts.get("fmt", "%.5f")
        cu = "FT"
        for k, want in (("STRT", index_now[0]), ("STOP", index_now[-1]), ("STEP", (index_now[1] - index_now[0]) if len(index_now) > 1 else None)):
            unit, val = written_value(lines1, k)
            obl.append(("written-%s-unit-is-index-unit" % k, unit == cu))
            if refresh and want is not None:
                obl.append(("written-%s-truthful" % k, val is not None and W.num_or_none(val) is not None and abs(W.num_or_none(val) - want) <= tol(opts, k)))
        core.oblige_all(obl)
        return {"observed": {"raised": None, "STRT": written_value(lines1, "STRT"), "STOP": written_value(lines1, "STOP"), "STEP": written_value(lines1, "STEP")}}

    return run


# ------------------------------------------------------------------------------ concrete oracle
def replay(i):
    import io
    import lasio

    class NS(object):
        pass

    ns = NS()
    ns.las = lasio.las
    ns.items = lasio.las_items
    section, state = i["section"], i["state"]
    opts = dict(OPTS[i["options"]])
    idx_name = list(INDEXES)[i["index"]]
    las = build(ns, section, (i["m"], i["u"], i["v"], i["d"]), state, idx_name)
    s0 = full_snapshot(las)
    index_now = np.array(las.curves[0].data, copy=True)
    refresh = state in ("scratch", "read-index-edited", "read-stop-mismatch", "scratch-no-header-units", "really-read-integer-stop-mismatch") or (state == "really-read-index-edited-in-place" and idx_name != "single")
    try:
        o1 = io.StringIO()
        las.write(o1, **opts)
        s1 = full_snapshot(las)
        o2 = io.StringIO()
        las.write(o2, **opts)
        s2 = full_snapshot(las)
    except Exception as e:
        return {"ok": False, "detail": "write raised %r" % (e,), "observed": {"raised": type(e).__name__}}
    lines1, lines2 = o1.getvalue().splitlines(), o2.getvalue().splitlines()
    obl = frame_obligations(s0, s1, opts, "first-write:")
    obl.append(("in-memory-VERS-untouched", [x for x in s1["sections"]["Version"] if x[0] == "VERS"] == [x for x in s0["sections"]["Version"] if x[0] == "VERS"]))
    obl.append(("second-write-identical-text", lines1 == lines2))
    obl += [(n.replace("first-write:", "second-write-no-change:"), c) for n, c in frame_obligations(s1, s2, {}, "first-write:")]
    for k in ("STRT", "STOP", "STEP"):
        a = [x for x in s1["sections"]["Well"] if x[0] == k]
        b = [x for x in s2["sections"]["Well"] if x[0] == k]
        obl.append(("second-write-keeps-%s" % k, len(a) == 1 and len(b) == 1 and a[0][1] == b[0][1] and bool(W.value_equal(a[0][2], b[0][2]))))
    fmt = opts.get("fmt", "%.5f")
    for k, want in (("STRT", index_now[0]), ("STOP", index_now[-1]), ("STEP", (index_now[1] - index_now[0]) if len(index_now) > 1 else None)):
        unit, val = written_value(lines1, k)
        obl.append(("written-%s-unit-is-index-unit" % k, unit == "FT"))
        if refresh and want is not None:
            obl.append(("written-%s-truthful" % k, val is not None and W.num_or_none(val) is not None and abs(W.num_or_none(val) - want) <= tol(opts, k)))
    bad = [n for n, c in obl if not bool(c)]
    return {"ok": not bad, "detail": "ok" if not bad else "violated: %r; state=%s index=%s options=%r; first output:\n%s" % (bad, state, idx_name, opts, "\n".join(lines1[:30])),
            "observed": {"raised": None, "STRT": written_value(lines1, "STRT"), "STOP": written_value(lines1, "STOP"), "STEP": written_value(lines1, "STEP")}}
