"""C06 - exactly the NULL-valued samples of non-index curves become NaN.

Kernel: the whole real LASFile.read (get_substitutions, the NULL application loop with its
index/dtype guards, both engines), then writer.write and a second read.  The ~Well NULL
spelling, the position of a probe cell (any column incl. the index and a text column) and
its spelling (equal to NULL in another spelling, near NULL, unrelated), null_policy and engine
are symbolic choices (finite domains: the solver decides the case analysis); numerals are
concrete so that numpy's own float equality is what runs.
"""
import numpy as np
from symlas import core, z, symnp
from symlas.driver import apply_exclusions
from symlas.stubs import SymFile, OutFile
from symlas.values import SymStr, fresh_int, fresh_bool
from checks import datafile as DF

PROPERTY = "C06"
FUNCTIONS = [
    "lasio/las.py::LASFile.read",
    "lasio/reader.py::get_substitutions",
    "lasio/reader.py::read_data_section_iterative_normal_engine",
    "lasio/reader.py::read_data_section_iterative_numpy_engine",
    "lasio/reader.py::identify_dtypes_from_data",
    "lasio/writer.py::write",
]
# NULL spelling -> (equal spellings, near-but-different spellings)
NULLS = {
    "-999.25": (["-999.25", "-999.2500", "-9.9925E2"], ["-999.26", "999.25", "-999.2", "-999.2501", "-999.24999"]),
    "-999.2500": (["-999.25", "-0999.25"], ["-999.251"]),
    "-9.9925E2": (["-999.25", "-9.9925e+02"], ["-9.9925E3"]),
    "999.25": (["999.25", "+999.25", "9.9925E2"], ["-999.25"]),
    "-999": (["-999", "-999.0", "-9.99E2"], ["-999.5", "999"]),
    "0": (["0", "0.0", "-0", "0E0"], ["0.001", "0.0001"]),
    "-99999.25": (["-99999.25", "-9.999925E4"], ["-99999.2", "-99999.3"]),
    "1234567.5": (["1234567.5", "1.2345675E6"], ["1234567", "1234570"]),
    "100000": (["1E5", "100000.0"], ["1E6"]),
    # explicit '+' in the exponent of the header spelling (what str() of a large float gives, so what the writer emits)
    "-9.9925E+02": (["-999.25", "-9.9925e2"], ["-9.9925E+03"]),
    "1e+25": (["1E25", "1.0e+25"], ["1e+24", "-1e+25"]),
}
BOUNDS = {
    "quick": {"nulls": ["-999.25", "-9.9925E2", "999.25", "0", "-99999.25", "-9.9925E+02", "1e+25"], "pad_cap": 1, "task_budget_s": 900},
    "thorough": {"nulls": list(NULLS), "pad_cap": 2, "task_budget_s": 3000},
}
ASSUMPTIONS = [
    "numerals are concrete and range over the listed spellings (equal to NULL in other spellings, near NULL, unrelated): float equality is numpy's C code and is executed, not encoded; the symbolic part is limited to finite choice variables (NULL spelling x probe position x probe spelling x policy x engine) whose case analysis the solver drives - this is the weakest use of the technique among the checks and is stated as such",
    "file: 3 rows x 3 or 4 columns (index, two numeric curves, optionally one text column), concrete layout (layout invariance is C02/C09); near-NULL samples differ from NULL by more than the precision of the default write format (a sample that the format rounds onto NULL is outside the claim)",
]
WITNESS_TARGETS = ["probe-equals-null-in-other-spelling", "probe-in-index-column", "probe-in-text-column", "policy-none", "round-trip-compared", "all-numeric-file-NaN-written-as-NULL", "read-with-lower-case-mnemonics"]
EXCLUSIONS = {}
ROWS, COLS = 3, 4
BASE_CELLS = [["10", "1.5", "2.5", "abc"], ["20", "3.5", "4.5", "def"], ["30", "5.5", "6.5", "ghi"]]


def tasks(tier):
    b = BOUNDS[tier]
    return [{"name": "null=%s/%s" % (n, e), "params": {"null": n, "engine": e, "pcap": b["pad_cap"]}} for n in b["nulls"] for e in ("numpy", "normal")]


def cells_for(null, pos, spell, with_text=True):
    eq, near = NULLS[null]
    choices = eq + near + ["7.75"]
    tok = choices[spell % len(choices)]
    cells = [list(r) for r in BASE_CELLS]
    i, j = divmod(pos, COLS)
    cells[i][j] = tok
    if not with_text:
        cells = [r[:3] for r in cells]  # all-numeric file: the writer's NaN -> NULL path is only taken then
    return cells, (i, j), tok, (spell % len(choices)) < len(eq)


def header(null, with_text=True):
    return ["~Version", "VERS. 2.0 : v", "WRAP. NO : w", "~Well", "STRT.M 10 : s", "STOP.M 30 : e", "STEP.M 10 : i", "NULL. %s : n" % null, "~Curve", "DEPT.M : d", "A.U : a", "B.U : b"] + (["T. : t"] if with_text else []) + ["~A"]


def expected(null, cells, policy):
    nv = float(null)
    cols = []
    for j in range(len(cells[0])):
        col = []
        for i in range(ROWS):
            t = cells[i][j]
            if j == 3:
                col.append(t)  # the text column is untouched
            else:
                v = float(t)
                col.append(float("nan") if (policy == "strict" and j != 0 and v == nv) else v)
        cols.append(col)
    return cols


def same(a, b):
    if len(a) != len(b):
        return False
    for x, y in zip(a, b):
        if len(x) != len(y):
            return False
        for p, q in zip(x, y):
            if isinstance(p, str) or isinstance(q, str):
                # a text-column cell: untouched, i.e. the same text - or, for a numeral, the same
                # number in numpy's spelling (the reader converts every token before it knows
                # the column is text; that re-spelling is not NULL handling)
                if not (isinstance(p, str) and isinstance(q, str)):
                    return False
                if p != q:
                    try:
                        if float(p) != float(q):
                            return False
                    except ValueError:
                        return False
            elif not (p == q or (p != p and q != q)):
                return False
    return True


def harness(ns, params):
    null, engine, pcap = params["null"], params["engine"], params["pcap"]

    def run():
        core.OPTS["concretize"] = True
        pos = fresh_int("probe_pos", 0, ROWS * COLS - 1)
        spell = fresh_int("probe_spelling", 0, 8)
        pol = fresh_bool("policy_none")
        wt = fresh_bool("with_text_column")
        mci = fresh_int("mnemonic_case", 0, 2)
        wt_c = bool(wt)
        mcase = ["upper", "lower", "preserve"][mci.__index__()]
        core.witness("read-with-lower-case-mnemonics", mcase == "lower")
        if not wt_c:
            core.assume(z.And([z.Not(z.eq_i(pos.e, k)) for k in (3, 7, 11)]))
        cells, (pi, pj), tok, is_eq = cells_for(null, pos.__index__(), spell.__index__(), wt_c)
        policy = "none" if bool(pol) else "strict"
        # symbolic paddings on the probe's line only (the other lines are laid out concretely)
        # (symbolic paddings around the numerals are C02/C09's subject; here they made one path cost 26 s)
        lines = [" " + "  ".join(cells[i]) for i in range(ROWS)]
        inputs = {"null": null, "engine": engine, "probe_pos": pos, "probe_spelling": spell, "policy_none": pol, "with_text_column": wt, "data_lines": lines, "mnemonic_case": mci}
        core.witness("all-numeric-file-NaN-written-as-NULL", (not wt_c) and is_eq and pj in (1, 2) and policy == "strict")
        cx = core.ctx()
        cx.inputs = inputs
        apply_exclusions(inputs)
        core.witness("probe-equals-null-in-other-spelling", is_eq and tok != null)
        core.witness("probe-in-index-column", pj == 0 and is_eq)
        core.witness("probe-in-text-column", pj == 3)
        core.witness("policy-none", policy == "none")
        las = ns.las.LASFile()
        try:
            las.read(SymFile(header(null, wt_c) + lines), engine=engine, null_policy=policy, mnemonic_case=mcase)
        except Exception as e:
            core.oblige("read-does-not-raise", False, info=repr(e)[:200])
            return {"observed": {"raised": type(e).__name__}}
        got = DF.curves_as_lists(las)
        exp = expected(null, cells, policy)
        obl = [("NaN-exactly-where-a-non-index-numeric-sample-equals-NULL", same(got, exp))]
        # write -> read: the same NaN positions
        try:
            out = OutFile()
            ns.writer.write(las, out, version=2.0)
            las2 = ns.las.LASFile()
            las2.read(SymFile(out.lines()), engine=engine, null_policy=policy, mnemonic_case=mcase)
            got2 = DF.curves_as_lists(las2)
            core.witness("round-trip-compared")
            nanset = lambda cols: [[(isinstance(v, float) and v != v) for v in c] for c in cols]
            obl.append(("same-NaN-positions-after-write-read", nanset(got2) == nanset(got) if policy == "strict" else True))
        except Exception as e:
            obl.append(("write-read-cycle-does-not-raise", False))
        core.oblige_all(obl)
        return {"observed": {"raised": None, "curves": got}}

    return run


# ------------------------------------------------------------------------------ concrete oracle
def replay(i):
    import io
    import lasio

    null, engine = i["null"], i["engine"]
    wt = i.get("with_text_column", True)
    cells, (pi, pj), tok, is_eq = cells_for(null, i["probe_pos"], i["probe_spelling"], wt)
    policy = "none" if i["policy_none"] else "strict"
    text = "\n".join(header(null, wt) + list(i["data_lines"])) + "\n"
    try:
        mcase = ["upper", "lower", "preserve"][i.get("mnemonic_case", 0)]
        las = lasio.read(text, engine=engine, null_policy=policy, mnemonic_case=mcase)
    except Exception as e:
        return {"ok": False, "detail": "read raised %r for %r" % (e, text), "observed": {"raised": type(e).__name__}}
    got = DF.curves_as_lists(las)
    exp = expected(null, cells, policy)
    problems = []
    if not same(got, exp):
        problems.append("NULL %s, cell (%d,%d) = %r, policy %s, engine %s: curves %r, expected %r" % (null, pi, pj, tok, policy, engine, got, exp))
    try:
        o = io.StringIO()
        las.write(o, version=2.0)
        las2 = lasio.read(o.getvalue(), engine=engine, null_policy=policy, mnemonic_case=mcase)
        got2 = DF.curves_as_lists(las2)
        nanset = lambda cols: [[(isinstance(v, float) and v != v) for v in c] for c in cols]
        if policy == "strict" and nanset(got2) != nanset(got):
            problems.append("NaN positions %r before and %r after write->read" % (nanset(got), nanset(got2)))
    except Exception as e:
        problems.append("write->read raised %r" % (e,))
    return {"ok": not problems, "detail": "; ".join(problems) or "ok", "observed": {"raised": None, "curves": got}}


def validate():
    return symnp.validate_genfromtxt()
