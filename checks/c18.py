"""C18 - JSON, CSV, Excel and depth views carry the same values as the curves.

Kernels: JSONEncoder.default (what lasio hands to json), the index-unit detection block of
LASFile.read with depth_m/depth_ft/_index_unit_contains, LASFile.to_csv (what it hands to
csv.writer) and ExcelConverter.generate_workbook (what it stores in cells).  json.dumps,
csv.writer and openpyxl are contract stubs; header value kinds, units, mnemonics and to_csv
options are solver variables.  df()/set_data_from_df (pandas) are not claimed.
"""
import numpy as np
from symlas import core, z, loader
from symlas.driver import apply_exclusions, lasio_sym
from symlas.stubs import SymFile, OutFile
from symlas.values import SymStr, SymInt, B, fresh_int, fresh_bool
from checks.common import allc, printable, printable_ascii, cond_str, Layout

PROPERTY = "C18"
FUNCTIONS = [
    "lasio/las.py::JSONEncoder.default",
    "lasio/las.py::LASFile.to_csv",
    "lasio/las.py::LASFile.read",
    "lasio/las.py::LASFile.depth_m",
    "lasio/las.py::LASFile.depth_ft",
    "lasio/las.py::LASFile._index_unit_contains",
    "lasio/excel.py::ExcelConverter.generate_workbook",
    "lasio/las_items.py::SectionItems.dictview",
]
PARTS = ["json", "units", "csv", "excel"]
BOUNDS = {
    "quick": {"parts": PARTS, "unit_cap": 4, "text_cap": 2, "task_budget_s": 900},
    "thorough": {"parts": PARTS, "unit_cap": 6, "text_cap": 3, "task_budget_s": 3000},
}
ASSUMPTIONS = [
    "json.dumps contract: str/int/float/bool/None/list/dict serialise as such, a float NaN/inf becomes the non-JSON token NaN/Infinity, any other type goes to default() which (for non-LASFile objects) yields null",
    "csv.writer contract: writerow receives the row; quoting/serialisation are csv's business; openpyxl contract: a cell stores the value it is given",
    "units: Latin-1 strings up to the capacity (the two Cyrillic spellings in DEPTH_UNITS are outside the alphabet); depth conversions compared on concrete arrays in the replay",
    "df()/set_data_from_df (pandas, C code) are outside this technique's reach: not claimed",
]
WITNESS_TARGETS = ["header-int64", "header-nan", "header-text", "text-curve", "unit-recognised", "unit-conflict", "unit-unknown", "csv-units-in-brackets", "excel-nan-cell", "unit-table-enumerated", "curve-name-ending-in-colon-digits"]
EXCLUSIONS = {}
KINDS = ["text", "np.int64", "np.float64", "nan", "int", "float", "empty"]
UNIT_SETS = {"FT": ("FT", "F", "FEET", "FOOT"), "M": ("M", "METER", "METERS", "METRE", "METRES"), ".1IN": (".1IN", "0.1IN", ".1INCH", "0.1INCH")}


def tasks(tier):
    b = BOUNDS[tier]
    out = [{"name": "json", "params": {"part": "json", "tcap": b["text_cap"]}},
           {"name": "excel", "params": {"part": "excel", "tcap": b["text_cap"]}}]
    # shape case-split: the length of every symbolic unit is fixed per task, all its characters symbolic
    import itertools

    for which in ("strt", "stop", "step", "curve", "strt+curve", "step+curve"):
        k = len(which.split("+"))
        for lens in itertools.product(range(0, b["unit_cap"] + 1), repeat=k):
            out.append({"name": "units-%s-%s" % (which, "x".join(map(str, lens))), "params": {"part": "units", "which": which, "lens": list(lens)}, "weight": 1})
    for loc in ("line", "[]", "()", None):
        out.append({"name": "csv-%s" % loc, "params": {"part": "csv", "units_loc": loc, "tcap": b["text_cap"]}})
    # the recognised spellings themselves, as listed in the working tree's lasio.defaults.DEPTH_UNITS (incl. the two
    # Cyrillic ones, which are outside the engine's alphabet for *symbolic* units): a finite table, every entry is run
    out.append({"name": "unit-table", "params": {"part": "unit-table"}})
    # df() / set_data_from_df(df()): pandas is executed natively, the curve name is symbolic and fixed per path by forking
    for pos in (1, 2):
        out.append({"name": "df-name-at-%d" % pos, "params": {"part": "df", "pos": pos}})
    return out


DF_ALPHABET = "A:12"


def _df_build(LASFile, nm, pos):
    las = LASFile()
    names = ["DEPT", "A", "B"]
    names[pos] = nm
    las.append_curve(names[0], np.array([1.0, 2.0, 3.0]), unit="M")
    las.append_curve(names[1], np.array([10.5, np.nan, 30.0]), unit="u1")
    las.append_curve(names[2], np.array([7.0, 8.0, 9.0]), unit="u2")
    return las


def _df_check(las):
    """problems with df() and set_data_from_df(df()) on this LASFile"""
    problems = []
    keys0 = list(las.keys())
    orig0 = [c.original_mnemonic for c in list.__iter__(las.curves)]
    data0 = [np.array(c.data, copy=True) for c in list.__iter__(las.curves)]
    df = las.df()
    if df.index.name != keys0[0] or list(df.columns) != keys0[1:]:
        problems.append("df() index %r columns %r for curves %r" % (df.index.name, list(df.columns), keys0))
    elif not (np.array_equal(df.index.values, data0[0]) and all(np.array_equal(df[k].values, d, equal_nan=True) for k, d in zip(keys0[1:], data0[1:]))):
        problems.append("df() values differ from the curves")
    las.set_data_from_df(df)
    keys1 = list(las.keys())
    if keys1 != keys0:
        problems.append("set_data_from_df(df()) changed the curve names %r -> %r (originals %r -> %r)" % (keys0, keys1, orig0, [c.original_mnemonic for c in list.__iter__(las.curves)]))
    if not all(np.array_equal(np.asarray(c.data, dtype=float), d, equal_nan=True) for c, d in zip(list.__iter__(las.curves), data0)):
        problems.append("set_data_from_df(df()) changed the curve values")
    return problems


def h_df(ns, p):
    import itertools

    def run():
        nm = SymStr.fresh("name", 3, minlen=1)
        codes = tuple(ord(c) for c in DF_ALPHABET)
        core.assume(allc(nm, lambda c: z.in_set_c(c, codes)))
        c = core.ctx()
        c.inputs = {"part": "df", "pos": p["pos"], "name": nm}
        conc = None
        for n in (1, 2, 3):
            for t in itertools.product(DF_ALPHABET, repeat=n):
                if conc is None and nm == "".join(t):
                    conc = "".join(t)
        if conc is None:
            raise core.OutOfBound("name outside the alphabet")
        core.witness("curve-name-ending-in-colon-digits", conc[-2:-1] == ":" and conc[-1:].isdigit() and len(conc) == 3)
        problems = _df_check(_df_build(ns.las.LASFile, conc, p["pos"]))
        core.oblige("df-and-set_data_from_df-round-trip", not problems, info=problems[:2])
        return {"observed": {"problems": len(problems)}}

    return run


def unit_table_cases():
    """(units for STRT/STOP/STEP/first curve, expected index unit) for every listed spelling"""
    import importlib.util
    import os
    from symlas import loader

    spec = importlib.util.spec_from_file_location("_lasio_defaults_for_c18", os.path.join(loader.REPO, "lasio", "defaults.py"), submodule_search_locations=None)
    src = open(os.path.join(loader.REPO, "lasio", "defaults.py"), encoding="utf-8").read()
    import ast

    table = None
    for node in ast.parse(src).body:
        if isinstance(node, ast.Assign) and any(getattr(t, "id", None) == "DEPTH_UNITS" for t in node.targets):
            table = ast.literal_eval(node.value)
    if not table:
        raise core.Inconclusive("DEPTH_UNITS not found in lasio/defaults.py")
    other = {"FT": "M", "M": "FT", ".1IN": "FT"}
    cases = []
    for key, spellings in table.items():
        for sp in spellings:
            variants = {sp}
            if sp.isascii():
                variants |= {sp.lower(), sp.title()}
            for v in sorted(variants):
                if v.startswith("."):
                    # 'DEPT..1IN' in ~Curve is the double-dot form (mnemonic 'DEPT.', unit '1IN'): C04's subject
                    cases.append(([v, v, v, ""], key))
                    continue
                cases.append(([v, v, v, v], key))          # everywhere
                cases.append((["", "", "", v], key))         # first curve only
                cases.append(([v, v, v, ""], key))           # ~Well only
                cases.append(([other[key]] * 3 + [v], None))  # conflict between ~Well and the first curve
    return cases


def _unit_table_run(LASFile_read, exc_cls):
    problems = []
    for us, want in unit_table_cases():
        lines = ["~V", "VERS. 2.0 : v", "WRAP. NO : w", "~W", "STRT." + us[0] + " 1.0 : a", "STOP." + us[1] + " 2.0 : b", "STEP." + us[2] + " 1.0 : c", "NULL. -9 : n",
                 "~C", "DEPT." + us[3] + " : d", "GR.API : g", "~A", "1 10", "2 20"]
        try:
            las = LASFile_read(lines)
        except Exception as e:
            problems.append("units %r: read raised %r" % (us, e))
            continue
        if las.index_unit != want:
            problems.append("units %r: index_unit %r, expected %r" % (us, las.index_unit, want))
        try:
            dm, dft = las.depth_m, las.depth_ft
            if want is None or not np.allclose(dm, dft * 0.3048):
                problems.append("units %r: depth_m %r / depth_ft %r" % (us, dm, dft))
        except exc_cls:
            if want is not None:
                problems.append("units %r: depth views undefined" % (us,))
    return problems


def h_unit_table(ns, p):
    def run():
        c = core.ctx()
        c.inputs = {"part": "unit-table"}

        def rd(lines):
            las = ns.las.LASFile()
            las.read(SymFile(lines), engine="normal")
            return las

        problems = _unit_table_run(rd, ns.exceptions.LASUnknownUnitError)
        core.witness("unit-table-enumerated", len(unit_table_cases()) > 40)
        core.oblige("every-listed-spelling-is-recognised-and-conflicts-are-undefined", not problems, info=problems[:3])
        return {"observed": {"problems": len(problems)}}

    return run


def _value_of_kind(kind, txt):
    return {"text": txt, "np.int64": np.int64(7), "np.float64": np.float64(2.5), "nan": np.nan, "int": 3, "float": 1.25, "empty": ""}[kind]


def _build_las(ns, kinds, txts, names, with_text_curve):
    las = ns.las.LASFile()
    HeaderItem = ns.items.HeaderItem
    las.params.append(HeaderItem(names[0], "u", _value_of_kind(kinds[0], txts[0]), "d0"))
    las.params.append(HeaderItem(names[1], "", _value_of_kind(kinds[1], txts[1]), "d1"))
    las.well["STRT"].value = _value_of_kind(kinds[2], txts[2])
    las.append_curve("DEPT", np.array([1.0, 2.0, 3.0]), unit="M")
    las.append_curve(names[2], np.array([10.5, np.nan, 30.0]), unit="API")
    if with_text_curve:
        las.append_curve("TXT", np.array(["a", "b", "c"]))
    return las


# ------------------------------------------------------------------------------ part: json
def _json_leaf_ok(v):
    """json.dumps contract: does this leaf serialise to strict JSON carrying its value?"""
    if isinstance(v, (str, SymStr)) or v is None or isinstance(v, bool):
        return True
    if isinstance(v, int):
        return True
    if isinstance(v, float):  # includes np.float64
        return bool(np.isfinite(v))
    return False  # np.int64 etc.: goes to default() -> null, the value is lost


def h_json(ns, p):
    def run():
        A = core.assume
        kt = [fresh_int("kind%d" % i, 0, len(KINDS) - 1) for i in range(3)]
        txts = []
        for i in range(3):
            t = SymStr.fresh("t%d" % i, p["tcap"], minlen=1)
            A(allc(t, printable))
            txts.append(t)
        names = []
        for i in range(3):
            nm = SymStr.fresh("n%d" % i, 1, minlen=1)
            A(allc(nm, lambda c: z.in_set_c(c, (65, 66))))
            names.append(nm)
        textcurve = fresh_bool("textcurve")
        inputs = {"part": "json", "kinds": kt, "txts": txts, "names": names, "textcurve": textcurve}
        c = core.ctx()
        c.inputs = inputs
        apply_exclusions(inputs)
        kinds = [KINDS[k.__index__()] for k in kt]
        tc = bool(textcurve)
        for k in kinds:
            core.witness("header-int64", k == "np.int64")
            core.witness("header-nan", k == "nan")
            core.witness("header-text", k == "text")
        core.witness("text-curve", tc)
        las = _build_las(ns, kinds, txts, names, tc)
        try:
            d = ns.las.JSONEncoder().default(las)
        except Exception as e:
            core.oblige("to_json-does-not-raise", False, info=repr(e)[:200])
            return {"observed": {"raised": type(e).__name__}}
        obl = []
        md = d["metadata"]
        # every header value carried: numbers as numbers, text as text, NaN as null
        for sect, items in (("Parameter", list(list.__iter__(las.params))), ("Well", list(list.__iter__(las.well))), ("Version", list(list.__iter__(las.version))), ("Curves", list(list.__iter__(las.curves)))):
            got = md.get(sect)
            obl.append(("json-section-%s-present" % sect, isinstance(got, dict)))
            if not isinstance(got, dict):
                continue
            for it in items:
                found, leaf = loader._dict_lookup(got, it.mnemonic)
                obl.append(("json-item-present", found))
                if not found:
                    continue
                obl.append(("json-leaf-strict", _json_leaf_ok(leaf)))
                v = it.value
                if isinstance(v, (str, SymStr)):
                    obl.append(("json-text-as-text", SymStr.lift(leaf).eq_expr(v) if isinstance(leaf, (str, SymStr)) else False))
                elif isinstance(v, float) and v != v:
                    obl.append(("json-nan-as-null", leaf is None))
                else:
                    obl.append(("json-number-as-number", isinstance(leaf, (int, float)) and not isinstance(leaf, bool) and leaf == v))
        for cv in list(list.__iter__(las.curves)):
            found, col = loader._dict_lookup(d["data"], cv.mnemonic)
            obl.append(("json-curve-present", found and len(col) == len(cv.data)))
            if found and len(col) == len(cv.data):
                for x, y in zip(cv.data, col):
                    if isinstance(x, float) and x != x:
                        obl.append(("json-sample-nan-as-null", y is None))
                    else:
                        obl.append(("json-sample-carried", _json_leaf_ok(y) and y == x))
        core.oblige_all(obl)
        return {"observed": {"raised": None}}

    return run


# ------------------------------------------------------------------------------ part: units
def _unit_class(u):
    """(is_ft, is_m, is_in) as z3 Booleans for a unit (case-insensitive membership)"""
    uu = SymStr.lift(SymStr.lift(u).upper())
    return [z.Or([uu.eq_expr(p) for p in UNIT_SETS[k]]) for k in ("FT", "M", ".1IN")]


def h_units(ns, p):
    which = p["which"]

    def run():
        A = core.assume
        core.OPTS["concretize"] = True  # mostly concrete file: positions forced by the preconditions become constants
        nows = lambda c: z.And(printable(c), z.Not(z.in_set_c(c, (32, 160, 58))))
        us = {}
        lns = {}
        symbolic = which.split("+")
        pre = {"strt": ("STRT.", " 1.0 : a"), "stop": ("STOP.", " 2.0 : b"), "step": ("STEP.", " 1.0 : c"), "curve": ("DEPT.", " : d")}
        for nm in ("strt", "stop", "step", "curve"):
            if nm in symbolic:
                ln = p["lens"][symbolic.index(nm)]
                u = SymStr.fresh("u_" + nm, ln, fixed_len=ln) if ln else ""
                if ln:
                    A(allc(u, nows))
                    # conformant unit: not all digits, no '.' at either end
                    A(z.Not(allc(u, lambda c: z.in_range_c(c, 48, 57))))
                    A(z.And(z.Not(z.eq_c(u.chars[0], 46)), z.Not(z.eq_c(u.chars[ln - 1], 46))))
            else:
                u = "" if len(symbolic) == 2 else "m"
            lns[nm] = _ln(pre[nm][0], u, pre[nm][1])
            us[nm] = u
        inputs = {"part": "units", "which": which, "units": [us["strt"], us["stop"], us["step"], us["curve"]]}
        c = core.ctx()
        c.inputs = inputs
        apply_exclusions(inputs)
        lines = ["~V", "VERS. 2.0 : v", "WRAP. NO : w", "~W",
                 lns["strt"], lns["stop"], lns["step"], "NULL. -9 : n",
                 "~C", lns["curve"], "GR.API : g", "~A", "1 10", "2 20"]
        las = ns.las.LASFile()
        try:
            las.read(SymFile(lines), engine="normal")
        except Exception as e:
            core.oblige("read-does-not-raise", False, info=repr(e)[:200])
            return {"observed": {"raised": type(e).__name__}}
        # what did the parser make of the units (trailing-dot rule etc.)? use lasio's own view of them
        seen = [las.well["STRT"].unit, las.well["STOP"].unit, las.well["STEP"].unit, list.__getitem__(las.curves, 0).unit]
        cls = [_unit_class(u) for u in seen]
        anyk = [z.Or([cl[k] for cl in cls]) for k in range(3)]
        n_matched = [anyk[0], anyk[1], anyk[2]]
        one = lambda k: z.And(n_matched[k], z.Not(z.Or([n_matched[j] for j in range(3) if j != k])))
        iu = las.index_unit
        names = ["FT", "M", ".1IN"]
        if iu is None:
            core.oblige("undefined-only-when-none-or-conflict", z.Not(z.Or([one(k) for k in range(3)])))
            core.witness("unit-conflict", z.And(n_matched[0], n_matched[1]))
            core.witness("unit-unknown", z.Not(z.Or(n_matched)))
        else:
            core.witness("unit-recognised")
            core.oblige("index-unit-is-a-known-class", iu in names)
            if iu in names:
                core.oblige("index-unit-matches-the-units", one(names.index(iu)))
        # depth views: which conversion is applied for this index unit
        obs = {"index_unit": iu}
        try:
            dm, dft = las.depth_m, las.depth_ft
            idx = las.index
            if iu == "M":
                ok = dm is idx and bool(np.allclose(dft * 0.3048, idx))
            elif iu == "FT":
                ok = dft is idx and bool(np.allclose(dm, idx * 0.3048))
            else:
                ok = bool(np.allclose(dft, idx / 120)) and bool(np.allclose(dm, dft * 0.3048))
            core.oblige("depth-views-consistent", ok and iu is not None)
        except ns.exceptions.LASUnknownUnitError:
            core.oblige("unknown-unit-error-only-when-undefined", iu is None)
        return {"observed": obs}

    return run


def _ln(pre, u, post):
    from symlas.values import concat

    return concat([pre, u, post])


# ------------------------------------------------------------------------------ part: csv
class CsvStub(object):
    class _W(object):
        def __init__(self, f, kw):
            self.f = f
            self.kw = kw
            if not hasattr(f, "rows"):
                f.rows = []

        def writerow(self, row):
            self.f.rows.append(list(row))

    @staticmethod
    def writer(f, **kw):
        return CsvStub._W(f, kw)


def h_csv(ns_unused, p):
    loc, tcap = p["units_loc"], p["tcap"]
    nsL = loader.load_lasio(extra_shims={"csv": CsvStub})

    def run():
        A = core.assume
        mn_mode = fresh_int("mnemonics_mode", 0, 2)  # True / False / list
        un_mode = fresh_int("units_mode", 0, 2)
        names, units = [], []
        for i in range(2):
            nm = SymStr.fresh("n%d" % i, tcap)
            u = SymStr.fresh("u%d" % i, tcap)
            A(allc(nm, printable_ascii))
            A(allc(u, printable_ascii))
            names.append(nm)
            units.append(u)
        inputs = {"part": "csv", "units_loc": loc, "mn_mode": mn_mode, "un_mode": un_mode, "names": names, "units": units}
        c = core.ctx()
        c.inputs = inputs
        apply_exclusions(inputs)
        las = nsL.las.LASFile()
        las.append_curve(names[0], np.array([1.0, 2.0, 3.0]), unit=units[0])
        las.append_curve(names[1], np.array([10.5, np.nan, 30.0]), unit=units[1])
        mm, um = mn_mode.__index__(), un_mode.__index__()
        mn_arg = [True, False, ["X", "Y"]][mm]
        un_arg = [True, False, ["ux", "uy"]][um]
        out = OutFile(name="caller")
        try:
            las.to_csv(out, mnemonics=mn_arg, units=un_arg, units_loc=loc)
        except Exception as e:
            core.oblige("to_csv-does-not-raise", False, info=repr(e)[:200])
            return {"observed": {"raised": type(e).__name__}}
        rows = getattr(out, "rows", [])
        exp_m = [names[0], names[1]] if mm == 0 else (None if mm == 1 else ["X", "Y"])
        exp_u = [units[0], units[1]] if um == 0 else (None if um == 1 else ["ux", "uy"])
        header = []
        if exp_m is not None:
            if loc in ("()", "[]") and exp_u is not None:
                core.witness("csv-units-in-brackets")
                header.append([_cat(m, " " + loc[0], u, loc[1]) for m, u in zip(exp_m, exp_u)])
            else:
                header.append(list(exp_m))
        if exp_u is not None and loc == "line":
            header.append(list(exp_u))
        obl = [("csv-row-count", len(rows) == len(header) + 3)]
        if len(rows) == len(header) + 3:
            for r, h in zip(rows, header):
                obl.append(("csv-header-row", z.And([len(r) == len(h)] + [_same(a, b) for a, b in zip(r, h)])))
            data = las.data
            for i in range(3):
                r = rows[len(header) + i]
                obl.append(("csv-record-%d" % i, len(r) == 2 and all((x == y) or (x != x and y != y) for x, y in zip(r, data[i, :]))))
        core.oblige_all(obl)
        return {"observed": {"rows": len(rows)}}

    return run


def _cat(*parts):
    from symlas.values import concat

    return concat(list(parts))


# ------------------------------------------------------------------------------ part: excel
class _Cell(object):
    def __init__(self):
        self.value = None


class _Sheet(object):
    def __init__(self, title="Sheet"):
        self.title = title
        self.cells = {}

    def cell(self, row, column):
        return self.cells.setdefault((row, column), _Cell())


class _WB(object):
    def __init__(self):
        self.sheets = {"Sheet": _Sheet("Sheet")}
        self.order = ["Sheet"]

    def __getitem__(self, k):
        return self.sheets[k]

    def create_sheet(self):
        s = _Sheet("Sheet%d" % len(self.order))
        self.sheets[s.title] = s
        self.order.append(s.title)
        return s

    def by_title(self, t):
        return [s for s in self.sheets.values() if s.title == t][0]


class OpenpyxlStub(object):
    Workbook = _WB


def h_excel(ns_unused, p):
    nsL = loader.load_lasio(extra_shims={"openpyxl": OpenpyxlStub})

    def run():
        A = core.assume
        kt = [fresh_int("kind%d" % i, 0, len(KINDS) - 1) for i in range(3)]
        txts, names = [], []
        for i in range(3):
            t = SymStr.fresh("t%d" % i, p["tcap"], minlen=1)
            A(allc(t, printable))
            txts.append(t)
            nm = SymStr.fresh("n%d" % i, 1, minlen=1)
            A(allc(nm, lambda c: z.in_set_c(c, (65, 66))))
            names.append(nm)
        textcurve = fresh_bool("textcurve")
        inputs = {"part": "excel", "kinds": kt, "txts": txts, "names": names, "textcurve": textcurve}
        c = core.ctx()
        c.inputs = inputs
        apply_exclusions(inputs)
        kinds = [KINDS[k.__index__()] for k in kt]
        tc = bool(textcurve)
        core.witness("text-curve", tc)
        las = _build_las(nsL, kinds, txts, names, tc)
        try:
            conv = nsL.excel.ExcelConverter(las)
        except Exception as e:
            core.oblige("to_excel-does-not-raise", False, info=repr(e)[:200])
            return {"observed": {"raised": type(e).__name__}}
        wb = conv.workbook
        hd, cs = wb.by_title("Header"), wb.by_title("Curves")
        obl = []
        row = 1
        for sname, sect in (("~Version", las.version), ("~Well", las.well), ("~Parameter", las.params), ("~Curves", las.curves)):
            for it in list(list.__iter__(sect)):
                cells = [hd.cell(row + 1, cidx + 1).value for cidx in range(5)]
                obl.append(("excel-header-row-%d" % row, z.And(cells[0] == sname, _same(cells[1], it.mnemonic), _same(cells[2], it.unit), _same(cells[3], it.value), _same(cells[4], it.descr))))
                row += 1
        obl.append(("excel-header-no-extra-rows", (row + 1, 1) not in hd.cells))
        for i, cv in enumerate(list(list.__iter__(las.curves))):
            obl.append(("excel-curve-title", _same(cs.cell(1, i + 1).value, cv.mnemonic)))
            for j, x in enumerate(cv.data):
                got = cs.cell(j + 2, i + 1).value
                if isinstance(x, float) and x != x:
                    core.witness("excel-nan-cell")
                    obl.append(("excel-nan-as-empty", isinstance(got, str) and got == ""))
                else:
                    obl.append(("excel-sample", got == x))
        core.oblige_all(obl)
        return {"observed": {"raised": None, "header_rows": row - 1}}

    return run


def _same(a, b):
    """equality as z3 condition / bool (text by content, NaN equals NaN)"""
    if isinstance(a, (str, SymStr)) and isinstance(b, (str, SymStr)):
        return SymStr.lift(a).eq_expr(b)
    if isinstance(a, (str, SymStr)) or isinstance(b, (str, SymStr)):
        return False
    if isinstance(a, float) and a != a:
        return isinstance(b, float) and b != b
    return bool(type(a) == type(b) and a == b)


def harness(ns, params):
    return {"json": h_json, "units": h_units, "csv": h_csv, "excel": h_excel, "unit-table": h_unit_table, "df": h_df}[params["part"]](ns, params)


# ------------------------------------------------------------------------------ concrete oracle
def replay(i):
    import io
    import json
    import lasio
    import lasio.excel

    part = i["part"]
    problems = []
    obs = None
    if part in ("json", "excel"):
        kinds = [KINDS[k] for k in i["kinds"]]

        class NS(object):
            pass

        ns = NS()
        ns.las = lasio.las
        ns.items = lasio.las_items
        las = _build_las(ns, kinds, i["txts"], i["names"], i["textcurve"])
        if part == "json":
            try:
                text = las.to_json()
                try:
                    d = json.loads(text, parse_constant=lambda cst: (_ for _ in ()).throw(ValueError("non-JSON constant " + cst)))
                except ValueError as e:
                    problems.append("to_json() output is not strict JSON: %s" % e)
                    d = None
                if d is not None:
                    for sect, sec in (("Parameter", las.params), ("Well", las.well), ("Version", las.version), ("Curves", las.curves)):
                        for it in sec:
                            leaf = d["metadata"][sect].get(it.mnemonic, "<missing>")
                            v = it.value
                            want = None if (isinstance(v, float) and v != v) else (v if isinstance(v, str) else (int(v) if isinstance(v, (int, np.integer)) else float(v)))
                            if leaf != want or (want is not None and not isinstance(want, str) and isinstance(leaf, str)):
                                problems.append("header %s.%s = %r comes out as %r" % (sect, it.mnemonic, v, leaf))
                    for cv in las.curves:
                        col = d["data"].get(cv.mnemonic)
                        want = [None if (isinstance(x, float) and x != x) else (x if isinstance(x, str) else float(x)) for x in cv.data.tolist()]
                        if col != want:
                            problems.append("curve %s comes out as %r" % (cv.mnemonic, col))
                obs = {"raised": None}
            except Exception as e:
                problems.append("to_json() raised %r" % (e,))
                obs = {"raised": type(e).__name__}
        else:
            try:
                conv = lasio.excel.ExcelConverter(las)
                wb = conv.workbook
                hd, cs = wb["Header"], wb["Curves"]
                row = 2
                for sname, sect in (("~Version", las.version), ("~Well", las.well), ("~Parameter", las.params), ("~Curves", las.curves)):
                    for it in sect:
                        cells = [hd.cell(row=row, column=k + 1).value for k in range(5)]
                        v = it.value
                        want = [sname, it.mnemonic, it.unit or None, v, it.descr or None]
                        ok = cells[0] == sname and cells[1] == it.mnemonic and (cells[2] or "") == it.unit and (cells[4] or "") == it.descr
                        okv = (cells[3] is None and v == "") or (isinstance(v, float) and v != v and isinstance(cells[3], float) and cells[3] != cells[3]) or cells[3] == v
                        if not (ok and okv):
                            problems.append("Header sheet row %d is %r, item is %r" % (row, cells, want))
                        row += 1
                nrows = row - 2
                for k, cv in enumerate(las.curves):
                    for j, x in enumerate(cv.data.tolist()):
                        got = cs.cell(row=j + 2, column=k + 1).value
                        if isinstance(x, float) and x != x:
                            if got not in ("", None):
                                problems.append("NaN sample written as %r" % (got,))
                        elif got != x:
                            problems.append("sample %r written as %r" % (x, got))
                obs = {"raised": None, "header_rows": nrows}
            except Exception as e:
                problems.append("to_excel raised %r" % (e,))
                obs = {"raised": type(e).__name__}
    elif part == "df":
        problems = _df_check(_df_build(lasio.LASFile, i["name"], i["pos"]))
        obs = {"problems": len(problems)}
    elif part == "unit-table":
        problems = _unit_table_run(lambda lines: lasio.read("\n".join(lines) + "\n", engine="normal"), lasio.exceptions.LASUnknownUnitError)
        obs = {"problems": len(problems)}
    elif part == "units":
        us = i["units"]
        lines = ["~V", "VERS. 2.0 : v", "WRAP. NO : w", "~W", "STRT." + us[0] + " 1.0 : a", "STOP." + us[1] + " 2.0 : b", "STEP." + us[2] + " 1.0 : c", "NULL. -9 : n",
                 "~C", "DEPT." + us[3] + " : d", "GR.API : g", "~A", "1 10", "2 20"]
        try:
            las = lasio.read("\n".join(lines) + "\n", engine="normal")
        except Exception as e:
            return {"ok": False, "detail": "read raised %r" % (e,), "observed": {"raised": type(e).__name__}}
        seen = [las.well["STRT"].unit, las.well["STOP"].unit, las.well["STEP"].unit, las.curves[0].unit]
        matched = {k for k, ss in UNIT_SETS.items() for u in seen if u.upper() in ss}
        want = list(matched)[0] if len(matched) == 1 else None
        obs = {"index_unit": las.index_unit}
        if las.index_unit != want:
            problems.append("units %r (parsed %r): index_unit is %r, expected %r" % (us, seen, las.index_unit, want))
        try:
            dm, dft = las.depth_m, las.depth_ft
            if want is None or not np.allclose(dm, dft * 0.3048):
                problems.append("depth_m %r vs depth_ft %r inconsistent for unit %r" % (dm, dft, las.index_unit))
        except lasio.exceptions.LASUnknownUnitError:
            if want is not None:
                problems.append("depth views undefined although the unit is %r" % want)
    elif part == "csv":
        loc, mm, um, names, units = i["units_loc"], i["mn_mode"], i["un_mode"], i["names"], i["units"]
        las = lasio.LASFile()
        las.append_curve(names[0], np.array([1.0, 2.0, 3.0]), unit=units[0])
        las.append_curve(names[1], np.array([10.5, np.nan, 30.0]), unit=units[1])
        mn_arg = [True, False, ["X", "Y"]][mm]
        un_arg = [True, False, ["ux", "uy"]][um]
        f = io.StringIO()
        try:
            las.to_csv(f, mnemonics=mn_arg, units=un_arg, units_loc=loc)
        except Exception as e:
            return {"ok": False, "detail": "to_csv raised %r" % (e,), "observed": {"raised": type(e).__name__}}
        import csv

        rows = list(csv.reader(io.StringIO(f.getvalue())))
        exp_m = [names[0], names[1]] if mm == 0 else (None if mm == 1 else ["X", "Y"])
        exp_u = [units[0], units[1]] if um == 0 else (None if um == 1 else ["ux", "uy"])
        header = []
        if exp_m is not None:
            header.append([m + " " + loc[0] + u + loc[1] for m, u in zip(exp_m, exp_u)] if (loc in ("()", "[]") and exp_u is not None) else list(exp_m))
        if exp_u is not None and loc == "line":
            header.append(list(exp_u))
        obs = {"rows": len(rows)}
        # csv.reader drops rows that are completely empty (two empty fields give ',' so they stay)
        if len(rows) != len(header) + 3:
            problems.append("csv has %d rows, expected %d" % (len(rows), len(header) + 3))
        else:
            for r, h in zip(rows, header):
                if r != h:
                    problems.append("csv header row %r, expected %r" % (r, h))
            for k in range(3):
                r = rows[len(header) + k]
                want = las.data[k, :]
                got = [float(x) if x not in ("", "nan") else float("nan") for x in r]
                if len(got) != 2 or not all((a == b) or (a != a and b != b) for a, b in zip(got, want)):
                    problems.append("csv record %d is %r, curves hold %r" % (k, r, want))
    return {"ok": not problems, "detail": "; ".join(problems) or "ok", "observed": obs}
