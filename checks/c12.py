"""C12 - writer options change presentation only, never content (1.2 <-> 2.0 included).

Kernel: the real writer.write under two writer configurations and the real LASFile.read of
both outputs, in one symbolic run.  The LASFile holds one symbolic header item (shape
case-split as in C03) in ~W / ~P / ~C / ~V; the two configurations are symbolic choices among
option sets whose numeric formats have equal precision.
"""
import numpy as np
from symlas import core, z
from symlas.driver import apply_exclusions
from symlas.stubs import SymFile
from symlas.values import SymStr, fresh_int, fresh_bool
from checks import writerlib as W
from checks import datafile as DF

PROPERTY = "C12"
FUNCTIONS = [
    "lasio/writer.py::write",
    "lasio/writer.py::get_section_order_function",
    "lasio/writer.py::get_section_widths",
    "lasio/writer.py::get_formatter_function",
    "lasio/reader.py::SectionParser.__init__",
    "lasio/reader.py::SectionParser.metadata",
    "lasio/reader.py::parse_header_items_section",
    "lasio/las.py::LASFile.read",
]
CONFIGS = [
    {"version": 2.0},
    {"version": 1.2},
    {"version": 2.0, "wrap": True, "data_width": 24},
    {"version": 1.2, "wrap": True, "data_width": 30},
    {"version": 2.0, "len_numeric_field": -1, "spacer": "  ", "lhs_spacer": ""},
    {"version": 2.0, "len_numeric_field": 14, "header_width": 40},
    {"version": 1.2, "mnemonics_header": True},
    {"version": 2.0, "data_section_header": "~A  DEPTH     GR", "wrap": False},
    {"version": 2.0, "wrap": True, "len_numeric_field": -1, "data_width": 20},
]
BOUNDS = {
    "quick": {"field_len_cap": 1, "sections": ["W", "P"], "configs": len(CONFIGS), "task_budget_s": 900},
    "thorough": {"field_len_cap": 2, "sections": ["V", "W", "C", "P"], "configs": len(CONFIGS), "task_budget_s": 3000},
}
ASSUMPTIONS = [
    "pairs of the listed writer configurations (version, wrap, data_width, len_numeric_field, spacers, header_width, header styles), all with the default numeric format (equal precision)",
    "one symbolic header item per run (all characters symbolic, field lengths by exhaustive case-split); four curves x two rows of concrete floats incl. NaN",
]
WITNESS_TARGETS = ["version-1.2-vs-2.0", "wrapped-vs-unwrapped", "well-item-swapped-on-disk", "second-NULL-item-in-both-configurations"]
EXCLUSIONS = {}


def tasks(tier):
    b = BOUNDS[tier]
    out = []
    for sec in b["sections"]:
        for shp in W.shapes(b["field_len_cap"]):
            if tier == "quick" and shp[0] == 0:
                continue
            out.append({"name": "%s/%s" % (sec, "".join(map(str, shp))), "params": {"section": sec, "shape": list(shp)}})
    # ~Well mnemonics long enough to spell STRT/STOP/STEP/NULL (any case mix, optionally followed by a digit)
    for shp in ((4, 0, 1, 1), (5, 0, 1, 1)):
        out.append({"name": "W/%s/letters" % "".join(map(str, shp)), "params": {"section": "W", "shape": list(shp), "letters_only": True}})
    return out


def build(ns, section, fields, no_nan=False):
    las = ns.las.LASFile()
    las.append_curve("DEPT", np.array([999.5, 1000.0]), unit="M", descr="depth")  # the rows differ in digit count
    las.append_curve("GR", np.array([10.5, 11.5 if no_nan else np.nan]), unit="API", descr="gamma")
    las.append_curve("RHOB", np.array([-12345.5, 2.5]), unit="G/C3", descr="density")  # '-12345.50000' is wider than the default field
    las.append_curve("NPHI", np.array([-0.125, 0.375]), unit="V/V", descr="porosity")
    las.well["COMP"].value = "ACME OIL"
    las.well["DATE"].value = "13-DEC-86"
    las.other = "free text"
    W.add_items(ns, las, section, fields, "wide", True)
    return las


def read_snapshot(ns, lines):
    las = ns.las.LASFile()
    las.read(SymFile(lines), engine="normal", mnemonic_case="preserve")
    return W.snapshot_sections(las), DF.curves_as_lists(las)


def harness(ns, params):
    section, shape = params["section"], tuple(params["shape"])

    def run():
        core.OPTS["concretize"] = True
        m, u, v, d = W.conformant_item("s", shape, section)
        from checks.common import allc, not_char

        if shape[0] == 0:
            for x in (u, v, d):
                if isinstance(x, SymStr):
                    core.assume(allc(x, not_char(".")))
        nn = fresh_bool("no_nan")
        if params.get("letters_only"):
            core.assume(allc(m, lambda c: z.Or(z.in_range_c(c, 65, 90), z.in_range_c(c, 97, 122), z.in_range_c(c, 48, 57))))
            core.assume(z.Not(z.in_range_c(m.chars[0], 48, 57)))
            # exact duplicates of STRT/STOP/STEP cannot be written, nor a second NULL while the data hold a NaN (known finding of C03)
            core.assume(z.Not(z.Or([m.eq_expr(n) for n in ("STRT", "STOP", "STEP")])))
            core.assume(z.Or(z.Not(m.eq_expr("NULL")), nn.e))
            core.witness("second-NULL-item-in-both-configurations", z.And(m.eq_expr("NULL"), nn.e))
        else:
            core.assume(z.Not(nn.e))
        a = fresh_int("config_a", 0, len(CONFIGS) - 1)
        b = fresh_int("config_b", 0, len(CONFIGS) - 1)
        core.assume(z.lt(a.e, b.e))
        inputs = {"section": section, "shape": list(shape), "m": m, "u": u, "v": v, "d": d, "config_a": a, "config_b": b, "no_nan": nn}
        cx = core.ctx()
        cx.inputs = inputs
        apply_exclusions(inputs)
        ca, cb = CONFIGS[a.__index__()], CONFIGS[b.__index__()]
        core.witness("version-1.2-vs-2.0", ca["version"] != cb["version"])
        core.witness("wrapped-vs-unwrapped", bool(ca.get("wrap")) != bool(cb.get("wrap")))
        core.witness("well-item-swapped-on-disk", ca["version"] != cb["version"] and section == "W")
        res = []
        for cfg in (ca, cb):
            las = build(ns, section, (m, u, v, d), bool(nn))
            try:
                lines = W.write_lines(ns, las, **cfg)
                res.append(read_snapshot(ns, lines))
            except Exception as e:
                core.oblige("write-and-read-back", False, info=repr(e)[:200])
                return {"observed": {"raised": type(e).__name__}}
        (ha, da), (hb, db) = res
        obl = [(n, c) for n, c in W.sections_equal(ha, hb, skip=()) if not n.startswith("Version")]
        va = [x for x in ha.get("Version", []) if x[0] not in ("VERS", "WRAP")]
        vb = [x for x in hb.get("Version", []) if x[0] not in ("VERS", "WRAP")]
        obl += W.sections_equal({"Version": va}, {"Version": vb}, skip=())
        obl.append(("same-curve-data", DF.same_cols(da, db)))
        core.oblige_all(obl)
        return {"observed": {"raised": None, "data": da}}

    return run


# ------------------------------------------------------------------------------ concrete oracle
def replay(i):
    import io
    import lasio

    class NS(object):
        pass

    ns = NS()
    ns.las = lasio.las
    ns.items = lasio.las_items
    section = i["section"]
    res = []
    texts = []
    for k in (i["config_a"], i["config_b"]):
        las = build(ns, section, (i["m"], i["u"], i["v"], i["d"]), bool(i.get("no_nan", False)))
        out = io.StringIO()
        try:
            las.write(out, **CONFIGS[k])
            texts.append(out.getvalue())
            l2 = lasio.read(out.getvalue(), engine="normal", mnemonic_case="preserve")
            res.append((W.snapshot_sections(l2), DF.curves_as_lists(l2)))
        except Exception as e:
            return {"ok": False, "detail": "config %r: %r" % (CONFIGS[k], e), "observed": {"raised": type(e).__name__}}
    (ha, da), (hb, db) = res
    obl = [(n, c) for n, c in W.sections_equal(ha, hb, skip=()) if not n.startswith("Version")]
    va = [x for x in ha.get("Version", []) if x[0] not in ("VERS", "WRAP")]
    vb = [x for x in hb.get("Version", []) if x[0] not in ("VERS", "WRAP")]
    obl += W.sections_equal({"Version": va}, {"Version": vb}, skip=())
    obl.append(("same-curve-data", DF.same_cols(da, db)))
    bad = [n for n, c in obl if not bool(c)]
    return {"ok": not bad, "detail": "ok" if not bad else "configs %r / %r differ in %r:\n%s\n-----\n%s" % (CONFIGS[i["config_a"]], CONFIGS[i["config_b"]], bad, texts[0][:1200], texts[1][:1200]), "observed": {"raised": None, "data": da}}
